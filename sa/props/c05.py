"""C05 Deadlines -- structure of the timeout handling."""
import ast

from ..astx import (calls_in, dotted, norm, src, iter_nodes, aliases_of, assigned_targets,
                    assigned_names, const_value, is_const, parent_chain)
from ..lib import (call_arg, relation, truth, other, cmp_views, core, holds_region, conditions, found_test, found_tests, path_tests, entails_empty, paths_entail_empty, eval_conditions, relation_tests, atom_key, expand_condition, mode_mismatch_conditions, cfg_nodes_with_call, node_calls, returns, raises, raised_class, stmt_assigns_attr,
                   callee_last, guard_region, find_test_nodes, compare_parts, is_name, is_self_attr, node_roots)
from ..lib import *      # noqa: F401,F403  (path-condition helpers)
from ..linear import ctext, lin, Lin
from ..loader import AnalysisError
from ..effects import resolve_call
from ..callgraph import reach
from ..nullness import none_misuses

EXPLANATION = (
    "Static analysis of the timeout conventions, not of wall-clock time: (D1) the -1 sentinel is replaced by the "
    "instance default before any arithmetic / ordering use or hand-over to a callee that does not itself understand "
    "-1 (interprocedural summaries, every function with a timeout=-1 default); (D2) no ordering comparison, "
    "arithmetic or sleep on a value the code itself treats as possibly None unless an is-not-None / truthiness test "
    "dominates it on the evaluated side of the short-circuit (path-sensitive nullness dataflow over every function "
    "of the transport and expect modules); (D3) one overall deadline: end_time computed once outside the loop, the "
    "remaining time recomputed after every read and passed to the read, the expiry test strict (<0) and ahead of "
    "the read; (D4) the select and poll wrappers agree: deadline once, remaining time recomputed on EINTR, negative "
    "remaining returns 'nothing ready', other errors re-raised, poll in milliseconds; (D5) from the timeout-bounded "
    "entries no call chain reaches an unbounded blocking primitive whose timeout is absent / None / not derived "
    "from the entry's timeout -- ptyprocess is parsed for this; (D6) per transport the library's 'nothing arrived' "
    "signals are translated to TIMEOUT; (D7) the socket read happens under the temporary timeout derived from the caller's timeout (leaving the socket's own setting as found is C06-D5). NOT decided: any "
    "wall-clock bound, scheduler behaviour.")
TRUSTED = ["os.waitpid(pid, 0) blocks, with WNOHANG it does not; select/poll honour their timeout, None = forever",
           "socket.settimeout(t)/recv: socket.timeout for t>0, BlockingIOError for t==0", "sa/ engine"]
ASSUMPTIONS = ["None-able values are those the code itself compares with None, defaults to None, or copies from "
               "the attributes timeout, delaybeforesend, delayafterread, searchwindowsize (belief inference)"]
LEVEL_TEXT = ("Static analysis of named structural clauses of the deadline handling: sentinel dataflow with call "
              "summaries, path-sensitive nullness, loop-invariant deadline and strict expiry test, select/poll sibling "
              "agreement, reachability of unbounded blocking primitives over the call graph incl. ptyprocess, "
              "translation of no-data signals to TIMEOUT, save/restore of the socket timeout.")
LEVEL_NOTE = ("Trusted: blocking behaviour of the named OS primitives; analyser. No wall-clock statement is decided. "
              "One open known finding (blocking waitpid in ptyprocess once EOF was flagged).")
TECHNIQUE = "sentinel/nullness dataflow + call-graph reachability of blocking primitives (static analysis)"

NONE_ATTRS = ('timeout', 'delaybeforesend', 'delayafterread', 'searchwindowsize', 'lookback')
NULL_MODULES = ('expect', 'spawnbase', 'pty_spawn', 'fdpexpect', 'popen_spawn', 'socket_pexpect', 'utils',
                '_async_w_await', 'replwrap', 'run', 'pxssh')


# ------------------------------------------------------------------ D1 sentinel

def param_index(fi, name):
    ps = fi.params
    return ps.index(name) if name in ps else None


def arg_for_param(call, target, pname, bound_self):
    """expression passed for parameter *pname* of *target* by *call* (None = not passed)"""
    for kw in call.keywords:
        if kw.arg == pname:
            return kw.value
    idx = param_index(target, pname)
    if idx is None:
        return None
    if bound_self and target.params and target.params[0] in ('self', 'cls'):
        idx -= 1
    if 0 <= idx < len(call.args):
        return call.args[idx]
    return None


def is_bound_call(call):
    # x.m(...) binds self; Class.m(self, ...) does not -- approximated by first arg being `self`
    if isinstance(call.func, ast.Attribute):
        if call.args and isinstance(call.args[0], ast.Name) and call.args[0].id == 'self' \
                and isinstance(call.func.value, ast.Name) and call.func.value.id[:1].isupper():
            return False
        return True
    return False


class Sentinel(object):
    def __init__(self, repo):
        self.repo = repo
        self.memo = {}

    def norm_tests(self, f, var='timeout'):
        g = f.cfg
        out = []
        for t in g.nodes:
            if t.kind != 'test':
                continue
            cp = compare_parts(t.ast)
            if cp and is_name(cp[0], var) and isinstance(cp[1], ast.Eq) and is_const(cp[2], -1):
                reg = guard_region(g, t, 'true')
                asg = [n for n in reg if n.kind == 'stmt' and isinstance(n.ast, ast.Assign) and var in assigned_names(n.ast)
                       and isinstance(n.ast.value, ast.Attribute) and n.ast.value.attr == 'timeout']
                if asg:
                    out.append(t)
        return out

    def sensitive_uses(self, f, var='timeout', stack=()):
        """[(cfgnode, astnode, why)] uses of *var* that are wrong for -1"""
        g = f.cfg
        uses = []
        live = g.live_nodes()
        for n in g.nodes:
            if n not in live:
                continue
            for r in node_roots(n):
                for x in iter_nodes(r):
                    if isinstance(x, ast.Compare):
                        ops = [x.left] + list(x.comparators)
                        for i, op in enumerate(x.ops):
                            if isinstance(op, (ast.Lt, ast.LtE, ast.Gt, ast.GtE)) and (is_name(ops[i], var) or is_name(ops[i + 1], var)):
                                uses.append((n, x, 'ordering comparison'))
                    elif isinstance(x, ast.BinOp) and (is_name(x.left, var) or is_name(x.right, var)) and \
                            not (isinstance(x.op, ast.Mod) and isinstance(x.left, ast.Constant)):
                        uses.append((n, x, 'arithmetic'))
                    elif isinstance(x, ast.Call):
                        passed = [a for a in x.args if is_name(a, var)] + [k.value for k in x.keywords if is_name(k.value, var)]
                        if not passed:
                            continue
                        tgts = resolve_call(self.repo, f, x)
                        d = dotted(x.func) or ''
                        if not tgts:
                            if d.split('.')[-1] in ('format', 'append', 'str', 'repr', 'isinstance', 'print'):
                                continue
                            uses.append((n, x, 'passed to %s (not resolvable: assumed not to know -1)' % (d or norm(x.func))))
                            continue
                        for t in tgts:
                            pn = None
                            bound = is_bound_call(x)
                            for p in t.params:
                                a = arg_for_param(x, t, p, bound)
                                if a is not None and is_name(a, var):
                                    pn = p
                            if pn is None:
                                continue
                            if not self.handles(t, pn, stack + (f.qual,)):
                                uses.append((n, x, 'passed to %s which does not replace -1' % t.qual))
        return uses

    def handles(self, f, var='timeout', stack=()):
        key = (f.qual, var)
        if key in self.memo:
            return self.memo[key]
        if f.qual in stack:
            return True
        self.memo[key] = True   # optimistic for recursion
        tests = self.norm_tests(f, var)
        g = f.cfg
        bad = []
        for n, x, why in self.sensitive_uses(f, var, stack):
            if tests and g.dominated_by(n, set(tests))[0]:
                continue
            bad.append((n, x, why))
        self.memo[key] = not bad
        self.memo[(f.qual, var, 'bad')] = bad
        return not bad

    def bad_uses(self, f, var='timeout'):
        self.handles(f, var)
        return self.memo.get((f.qual, var, 'bad'), [])


def run(R):
    repo = R.repo
    # ------------------------------------------------------------------ D1
    with R.clause('D1', 'SENT', floor=12, desc='timeout=-1 is replaced by the instance default before any use that would misread it') as c:
        S = Sentinel(repo)
        fam = []
        for f in repo.package_funcs():
            if 'timeout' in f.params and is_const(f.param_default('timeout'), -1):
                fam.append(f)
            elif 'timeout' in f.params and f.name == 'read_nonblocking' and f.cls is not None and f.cls.name != 'SpawnBase' \
                    and any(isinstance(x, ast.Compare) and is_name(x.left, 'timeout') and is_const(x.comparators[0], -1) for x in ast.walk(f.node)):
                fam.append(f)       # accepts -1 although it has no default (PopenSpawn)
        R.extra['sentinel_functions'] = [f.qual for f in fam]
        for f in fam:
            has_default_src = f.cls is not None and (repo.is_subclass(f.cls, 'SpawnBase') or f.cls.name == 'REPLWrapper') \
                or f.qual.endswith(':repl_run_command_async')
            if not has_default_src and not S.bad_uses(f):
                # a plain function that only hands its timeout on to callees that replace -1 themselves
                c.ok(f, None, 'timeout is only forwarded to callees that replace the -1 sentinel', kind='flow', tag='sentinel-forward')
                continue
            if not has_default_src:
                # no instance default reachable from here: every call site must pass an explicit value
                sites = 0
                for caller in repo.package_funcs():
                    for k in calls_in(caller.node):
                        if callee_last(k) == f.name and f in resolve_call(repo, caller, k):
                            sites += 1
                            a = arg_for_param(k, f, 'timeout', is_bound_call(k))
                            ok = a is not None and not is_const(a, -1)
                            if ok and isinstance(a, ast.Name) and a.id in caller.params:
                                # the caller's own parameter: must be normalised there
                                ok = S.handles_dom(caller, a.id, k) if hasattr(S, 'handles_dom') else _normalised_before(S, caller, a.id, k)
                            c.check(ok, caller, k, '%s has no instance default to fall back on: the call passes an explicit, '
                                    'already normalised timeout' % f.qual, witness=norm(k), kind='flow', tag='explicit-timeout')
                c.need(sites >= 1, 'no call site of %s found' % f.qual)
                continue
            bad = S.bad_uses(f)
            if bad:
                for n, x, why in bad:
                    c.bad(f, x, 'timeout may still be the -1 sentinel here (%s): -1 would be taken as a number '
                          '(immediate TIMEOUT) instead of the instance default' % why,
                          witness='no `if timeout == -1: timeout = self.timeout` dominates L%d' % n.lineno, kind='flow',
                          tag='sentinel:' + norm(x)[:60])
            else:
                c.ok(f, None, 'every use of timeout is dominated by the -1 normalisation or forwards to a callee that normalises',
                     kind='flow', tag='sentinel')
    # ------------------------------------------------------------------ D2
    with R.clause('D2', 'NULL', floor=30, desc='no ordering / arithmetic / sleep on a possibly-None value without a dominating None test') as c:
        nchecked = 0
        for f in repo.package_funcs():
            if f.module.name not in NULL_MODULES:
                continue
            try:
                bad, cand = none_misuses(f, NONE_ATTRS)
            except AnalysisError:
                raise
            nchecked += 1
            if bad:
                for kind, name, node, path in bad:
                    c.bad(f, node, '`%s` may be None here (%s): TypeError at run time' % (name, kind[5:]),
                          witness='path: ' + path, kind='flow', tag='%s:%s:%s' % (kind, name, norm(node)[:50]))
            elif cand:
                c.ok(f, None, 'None-able values %s are only used numerically under a None test' % sorted(cand), kind='flow', tag='null')
        R.extra['null_functions_analysed'] = nchecked
    # ------------------------------------------------------------------ D3
    with R.clause('D3', 'DEADLINE', floor=10, desc='one overall deadline, recomputed remaining time, strict expiry test before the read') as c:
        check_deadline_loop(c, repo, repo.func('expect:Expecter.expect_loop'), read='read_nonblocking', expire_call='timeout')
        check_deadline_loop(c, repo, repo.func('pty_spawn:spawn.waitnoecho'), read=None, expire_call=None)
    # ------------------------------------------------------------------ D4
    with R.clause('D4', 'SIB', floor=10, desc='select and poll wrappers agree on deadline / EINTR / error discipline') as c:
        check_wrappers(c, repo)
    # ------------------------------------------------------------------ D5
    with R.clause('D5', 'BLOCK', floor=8, desc='no unbounded blocking primitive reachable from a timeout-bounded entry') as c:
        check_blocking(c, repo, R)
    # ------------------------------------------------------------------ D6 / D7
    with R.clause('D8', 'POLL', floor=6, desc='pty read: drain polls are non-blocking, every read is guarded by a successful poll; waitnoecho outcomes') as c:
        check_pty_polls(c, repo)
    with R.clause('D6', 'TAB', floor=3, desc='"nothing arrived in time" is reported as TIMEOUT on every transport') as c:
        check_nodata(c, repo)
    with R.clause('D7', 'PAIR', floor=2, desc='socket: recv happens under the temporary timeout derived from the caller\'s timeout') as c:
        check_socket_timeout(c, repo, restore=False)


def _normalised_before(S, caller, var, call):
    g = caller.cfg
    n = g.node_for(call)
    tests = S.norm_tests(caller, var)
    return bool(tests) and n is not None and g.dominated_by(n, set(tests))[0]


# ------------------------------------------------------------------ D3

def others_none(g, ev):
    """bindings of the deadline variable to None (the no-timeout placeholder)"""
    return [n for n in g.nodes if n.kind == 'stmt' and isinstance(n.ast, ast.Assign) and ev in assigned_names(n.ast) and is_const(n.ast.value, None)]


def check_deadline_loop(c, repo, f, read, expire_call):
    """One overall deadline.  The names are found from their roles, not from their spelling: P is the call's `timeout` parameter,
    R the variable that carries the remaining time (what the read is given / what the expiry test compares; P itself or a copy
    `R = P` made before the loop), E the deadline `time.time() + P`.  `X is None` tests on P, R and E all mean "no deadline"
    (E is None exactly when P is: its only other binding is `E = None` under `P is None`)."""
    g = f.cfg
    P = 'timeout'
    loops = [n for n in iter_nodes(f.node) if isinstance(n, ast.While)]
    c.need(len(loops) == 1, '%s: expected one while loop' % f.qual)
    loop = loops[0]
    hdr = g.node_of_stmt(loop)

    def in_loop(n):
        return any(p is loop for p in parent_chain(n.ast if hasattr(n, 'ast') else n))
    reads = [n for n, k in cfg_nodes_with_call(f, lambda k: callee_last(k) == read)] if read else []
    R = None
    absolute = None          # (test node, deadline name): the loop compares the clock with the deadline itself, there is no remaining-time variable
    cands = set()
    for t in g.nodes:
        if t.kind == 'test' and t.ast is not None and any(p is loop for p in parent_chain(t.stmt)):
            for x in ast.walk(t.ast):
                for l_, op_, r_ in cmp_views(x) if isinstance(x, ast.Compare) else ():
                    if isinstance(l_, ast.Name) and op_ in (ast.Lt, ast.LtE, ast.Gt, ast.GtE) and isinstance(const_value(r_, None), (int, float)):
                        cands.add(l_.id)
                    if norm(l_) == 'time.time()' and op_ in (ast.Gt, ast.GtE) and isinstance(r_, ast.Name):
                        absolute = (t, r_.id)
    if read:
        c.need(len(reads) == 1, 'read call not found')
        rk = [k for k in node_calls(reads[0]) if callee_last(k) == read][0]
        ra = call_arg(rk, 'timeout', 1)
        if isinstance(ra, ast.Name):
            R = ra.id
        else:
            pure_other = ra is not None and not any(isinstance(x, ast.Name) and x.id in cands | {P} for x in ast.walk(ra))
            c.need(pure_other, '%s: the timeout given to the read is an expression the rule cannot follow: %s' % (f.qual, norm(rk)))
            c.bad(f, rk, 'the remaining time (not some other value) is what the read is given', witness=norm(rk), kind='ast', tag='read-gets-remaining')
            c.need(len(cands) == 1, '%s: expiry test on the remaining time not found in the loop' % f.qual)
            R = list(cands)[0]
            ra = ast.Name(id=R, ctx=ast.Load())
    elif len(cands) == 1:
        R = cands.pop()
    else:
        c.need(absolute is not None and not cands, '%s: expiry test on the remaining time not found in the loop' % f.qual)
        R = P
    var = R
    if R != P:
        outs = [n for n in g.nodes if n.kind == 'stmt' and R in assigned_names(n.ast) and not in_loop(n)]
        ok = len(outs) == 1 and isinstance(outs[0].ast, ast.Assign) and is_name(outs[0].ast.value, P) and g.dominated_by(hdr, {outs[0]})[0] \
            and not [n for n in g.nodes if n.kind == 'stmt' and P in assigned_names(n.ast) and g.path(outs[0], {n}, skip_labels=('exc',), include_start=False)]
        c.check(ok, f, outs[0].ast if outs else loop, 'the remaining time starts as the timeout of the call', witness=str([norm(n.ast) for n in outs]), kind='ast', tag='remaining-init')
    ends = [n for n in g.nodes if n.kind == 'stmt' and isinstance(n.ast, ast.Assign) and isinstance(n.ast.value, ast.BinOp)
            and isinstance(n.ast.value.op, ast.Add) and 'time.time()' in norm(n.ast.value)
            and (is_name(n.ast.value.left if norm(n.ast.value.right) == 'time.time()' else n.ast.value.right, P) or
                 (not in_loop(n) and is_name(n.ast.value.left if norm(n.ast.value.right) == 'time.time()' else n.ast.value.right, R)))]
    c.need(len(ends) >= 1, '%s: end_time = time.time() + timeout not found' % f.qual)
    c.check(len(ends) == 1, f, ends[-1].ast, 'the deadline is computed exactly once', kind='ast', tag='deadline-once')
    en = ends[0]
    ev = en.ast.targets[0].id
    inloop = in_loop(en)
    c.check(not inloop, f, en.ast, 'the deadline is computed before the loop (not pushed forward by every iteration)',
            witness='assignment sits inside the while loop' if inloop else None, kind='ast', tag='deadline-outside')
    # (a placeholder `end_time = None` for the no-timeout case, outside the loop, does not move anything)
    others = [n for n in g.nodes if n.kind == 'stmt' and ev in assigned_names(n.ast) and n is not en and
              not (isinstance(n.ast, ast.Assign) and is_const(n.ast.value, None) and not in_loop(n)
                   and (('%s is None' % P, True) in conditions(g, n) or ('%s is None' % R, True) in conditions(g, n) or
                        (g.dominated_by(en, {n})[0] and g.path(en, {n}, skip_labels=('exc',), include_start=False) is None)))]
    c.check(not others, f, others[0].ast if others else None, 'the deadline is never moved afterwards', kind='ast', tag='deadline-fixed')
    # the deadline exists whenever there is a timeout: it is computed under no condition or under `timeout is not None` only
    ec = set(conditions(g, en)) - {('%s is None' % P, False), ('%s is None' % R, False)}
    c.check(not ec, f, en.ast, 'the deadline is computed whenever the call has a timeout (0 included)', witness='computed only under %s' % sorted(ec) if ec else None,
            kind='path', tag='deadline-always')

    def no_deadline_tests():
        out = []
        for x in {P, R, ev}:
            out += none_tests(g, x)
        return out
    if absolute is not None and not read and not [n for n in g.nodes if n.kind == 'stmt' and var in assigned_names(n.ast) and in_loop(n)]:
        t, dn = absolute
        c.check(dn == ev, f, t.ast, 'the clock is compared with the deadline of this call', witness=norm(t.ast), kind='ast', tag='expiry-deadline')
        # the comparison is skipped only when there is no deadline
        ok = any(t in guard_region(g, t2, other(lab)) for t2, lab in no_deadline_tests()) or not others_none(g, ev)
        c.check(ok, f, t.ast, 'the deadline test is skipped only for timeout=None', kind='path', tag='recompute-guard')
        reg = holds_region(g, t, True)
        rets = [n for n in reg if n.kind == 'stmt' and isinstance(n.ast, ast.Return) and is_const(n.ast.value, False)]
        c.check(bool(rets), f, t.ast, 'an expired deadline returns False', kind='path', tag='expiry-outcome')
        return
    # recompute
    rec = [n for n in g.nodes if n.kind == 'stmt' and isinstance(n.ast, ast.Assign) and var in assigned_names(n.ast) and in_loop(n)]
    good = [n for n in rec if lin(n.ast.value, f, keep=(ev, var)) == Lin(0, {ev: 1, 'time.time()': -1})]
    c.check(len(rec) == 1 and len(good) == 1, f, rec[0].ast if rec else loop,
            'inside the loop the remaining time is re-assigned only as <deadline> - time.time()',
            witness=str([norm(n.ast) for n in rec]), kind='alg', tag='recompute')
    if good:
        rn = good[0]
        # guarded by timeout is not None
        guards = [(t, lab) for t, lab in no_deadline_tests() if rn in guard_region(g, t, other(lab))]
        extra = set(conditions(g, rn)) - set(conditions(g, hdr)) - set(('%s is None' % x, False) for x in (P, R, ev))
        extra = set(e_ for e_ in extra if not any(e_ in expand_condition(t.ast, v_) for t in g.nodes if t.kind == 'test' and t.ast is not None
                                                 and not any(p is loop for p in parent_chain(t.stmt)) for v_ in (True, False)))
        c.check(bool(guards), f, rn.ast, 'the recomputation is skipped only for timeout=None', kind='path', tag='recompute-guard')
        if read:
            rd = reads[0]
            # between two reads, unless timeout is None, the recompute happens: every path rd -> rd passes rn or the is-None edge of the None-guard
            nones = set(guards)
            ok, p = g.must_pass(rd, {rd}, {rn}, skip_labels=('exc',), through_edges=nones)
            c.check(ok, f, rn.ast, 'after every read the remaining time is recomputed before the next read',
                    witness='path: ' + g.describe_path(p) if p else None, tag='recompute-every-iteration')
            c.check(is_name(ra, var), f, rk, 'the remaining time (not the original timeout) is what the read is given', witness=norm(rk), kind='ast', tag='read-gets-remaining')
    # expiry test
    exp = [t for t in g.nodes if t.kind == 'test' and any(p is loop for p in parent_chain(t.stmt)) and
           any(isinstance(x, ast.Compare) and is_name(x.left, var) and isinstance(x.ops[0], (ast.Lt, ast.LtE, ast.Gt, ast.GtE))
               for x in ast.walk(t.ast))]
    c.need(len(exp) == 1, '%s: expiry test on the remaining time not found in the loop' % f.qual)
    t = exp[0]
    cmp_ = [x for x in ast.walk(t.ast) if isinstance(x, ast.Compare) and is_name(x.left, var)
            and isinstance(x.ops[0], (ast.Lt, ast.LtE, ast.Gt, ast.GtE))][0]
    strict = isinstance(cmp_.ops[0], ast.Lt) and is_const(cmp_.comparators[0], 0)
    c.check(strict, f, t.ast, 'expired means remaining < 0 strictly: timeout=0 still performs one poll', witness=norm(cmp_), kind='alg', tag='expiry-strict')
    if read:
        ok, p = g.must_pass(hdr, set(reads), {t}, skip_labels=('exc',), through_edges=set(no_deadline_tests()))
        c.check(ok, f, t.ast, 'the expiry test precedes the read in every iteration (unless timeout is None)',
                witness='path: ' + g.describe_path(p) if p else None, tag='expiry-before-read')
        reg = guard_region(g, t, 'true')
        rets = [n for n in reg if n.kind == 'stmt' and isinstance(n.ast, ast.Return) and isinstance(n.ast.value, ast.Call)
                and callee_last(n.ast.value) == expire_call]
        c.check(bool(rets), f, t.ast, 'an expired deadline ends the call through self.timeout()', kind='path', tag='expiry-outcome')
    else:
        reg = guard_region(g, t, 'true')
        rets = [n for n in reg if n.kind == 'stmt' and isinstance(n.ast, ast.Return) and is_const(n.ast.value, False)]
        c.check(bool(rets), f, t.ast, 'an expired deadline returns False', kind='path', tag='expiry-outcome')


# ------------------------------------------------------------------ D4

def none_tests(g, var):
    """[(test node, outcome on which <var> IS None)] for every `var is None` / `var is not None` test, however written"""
    out = []
    for t in g.nodes:
        if t.kind == 'test' and t.ast is not None:
            r = relation(t.ast)
            if r and r[0] == 'is' and is_name(r[1], var) and is_const(r[2], None):
                out.append((t, r[3]))
    return out


def check_wrappers(c, repo):
    specs = (('utils:select_ignore_interrupts', 'select.select', 3), ('utils:poll_ignore_interrupts', 'poll', 0))
    for q, prim, targ in specs:
        f = repo.func(q)
        g = f.cfg
        var = 'timeout'
        ends = [n for n in g.nodes if n.kind == 'stmt' and isinstance(n.ast, ast.Assign) and
                lin(n.ast.value, f, keep=(var,)) == Lin(0, {'time.time()': 1, var: 1})]
        loops = [n for n in iter_nodes(f.node) if isinstance(n, ast.While)]
        c.need(len(loops) == 1 and len(ends) == 1, '%s: deadline / loop not found' % q)
        ev = ends[0].ast.targets[0].id
        c.check(not any(p is loops[0] for p in parent_chain(ends[0].ast)), f, ends[0].ast,
                'deadline computed once, before the retry loop', kind='ast', tag='once')
        hs = [n for n in iter_nodes(f.node) if isinstance(n, ast.ExceptHandler)]
        c.need(len(hs) == 1, '%s: expected one except handler' % q)
        h = hs[0]
        rec = [n for n in ast.walk(h) if isinstance(n, ast.Assign) and var in assigned_names(n)]
        ok = len(rec) == 1 and lin(rec[0].value, f, keep=(ev, var)) == Lin(0, {ev: 1, 'time.time()': -1})
        c.check(ok, f, rec[0] if rec else h, 'on EINTR the remaining time is end_time - time.time()', witness=str([norm(r) for r in rec]), kind='alg', tag='eintr-remaining')
        negs = [n for n in ast.walk(h) if isinstance(n, ast.If) and isinstance(n.test, ast.Compare) and is_name(n.test.left, var)
                and isinstance(n.test.ops[0], (ast.Lt, ast.LtE)) and is_const(n.test.comparators[0], 0)]
        ok = len(negs) == 1 and any(isinstance(s, ast.Return) for s in negs[0].body)
        c.check(ok, f, negs[0] if negs else h, 'a deadline that passed during the interruption returns "nothing ready"', kind='ast', tag='eintr-expired')
        # the errno test, whichever way round it is written: on the outcome where errno IS EINTR the wait is retried,
        # on the other outcome the very next thing is a bare raise
        eintr = []
        for t in g.nodes:
            if t.kind == 'test' and any(t.ast is d for d in ast.walk(h)):
                rel = relation(t.ast)
                if rel and rel[0] == 'eq' and {norm(rel[1]), norm(rel[2])} & {'errno.EINTR'} and \
                        any(norm(x).endswith('.args[0]') for x in (rel[1], rel[2])):
                    eintr.append((t, rel[3]))
        ok = len(eintr) == 1
        if ok:
            t, lab = eintr[0]
            nxt = [s for s, l in t.succ if l == other(lab)]
            ok = len(nxt) == 1 and nxt[0].kind == 'stmt' and isinstance(nxt[0].ast, ast.Raise) and nxt[0].ast.exc is None
            # the recomputation happens on the EINTR outcome, under `timeout is not None`
            reg = guard_region(g, t, lab, skip_labels=())
            recn = [n for n in g.nodes if n.kind == 'stmt' and any(n.ast is r_ for r_ in rec)]
            gd = []
            for t2 in g.nodes:
                if t2.kind == 'test' and t2 in reg:
                    r2 = relation(t2.ast)
                    if r2 and r2[0] == 'is' and is_name(r2[1], var) and is_const(r2[2], None) and \
                            all(n in guard_region(g, t2, other(r2[3]), skip_labels=()) for n in recn):
                        gd.append(t2)
            c.check(len(recn) == 1 and recn[0] in reg and len(gd) == 1, f, t.ast, 'only an interrupted wait (EINTR) is retried, with the remaining time recomputed unless timeout is None',
                    witness=norm(t.ast), kind='ast', tag='eintr-branch')
        c.check(ok, f, eintr[0][0].ast if eintr else h, 'errors other than EINTR are re-raised unchanged', kind='ast', tag='other-errors')
        # the primitive receives the (remaining) timeout
        prims = [k for k in calls_in(f.node) if (dotted(k.func) or '').endswith(prim) and dotted(k.func) != 'select.poll']
        c.need(len(prims) == 1, '%s: primitive call %s not found' % (q, prim))
        k = prims[0]
        if prim == 'select.select':
            c.check(len(k.args) == 4 and is_name(k.args[3], var), f, k, 'select.select is given the remaining timeout', witness=norm(k), kind='ast', tag='prim-timeout')
        else:
            a = k.args[0] if k.args else None
            okp = False
            wit = norm(k)
            if isinstance(a, ast.Name):
                # every definition of the value handed to poll(): None exactly where timeout is None, else 1000 * timeout, made inside the retry loop
                defs = [n for n in iter_nodes(f.node) if isinstance(n, ast.Assign) and a.id in assigned_names(n)]
                wit = str([norm(d) for d in defs])
                okp = bool(defs)
                kinds = set()
                for d in defs:
                    cs = conditions(g, g.node_of_stmt(d))
                    inl = any(p is loops[0] for p in parent_chain(d))
                    if is_const(d.value, None):
                        kinds.add('none')
                        okp = okp and inl and ('%s is None' % var, True) in cs
                    else:
                        kinds.add('ms')
                        okp = okp and inl and lin(d.value, f, keep=(var,)) == Lin(0, {var: 1000}) and ('%s is None' % var, False) in cs
                okp = okp and kinds == {'none', 'ms'}
            c.check(okp, f, k, 'poll is given the remaining timeout in milliseconds, recomputed in every retry (None = forever)',
                    witness=wit, kind='alg', tag='prim-timeout')
        if prim == 'poll':
            regs = [kk for kk in calls_in(f.node) if callee_last(kk) == 'register']
            lp = [n for n in iter_nodes(f.node) if isinstance(n, ast.For)]
            okr = len(regs) == 1 and len(lp) == 1 and is_name(lp[0].iter, f.params[0]) and isinstance(lp[0].target, ast.Name) and \
                regs[0].args and is_name(regs[0].args[0], lp[0].target.id) and len(regs[0].args) == 2 and 'select.POLLIN' in norm(regs[0].args[1]) \
                and any(regs[0] is d for d in ast.walk(lp[0]))
            c.check(okr, f, regs[0] if regs else None, 'every descriptor asked for is registered for input events', witness=norm(regs[0]) if regs else 'no register()', kind='ast', tag='poll-register')
        # the primitive is inside the try inside the loop
        c.check(any(isinstance(p, ast.Try) for p in parent_chain(k)) and any(p is loops[0] for p in parent_chain(k)), f, k,
                'the primitive is retried inside the loop', kind='ast', tag='retry')


# ------------------------------------------------------------------ D5

BOUNDED_ENTRIES = ['expect:Expecter.expect_loop', 'pty_spawn:spawn.waitnoecho', '_async_w_await:expect_async']


def check_blocking(c, repo, R):
    entries = [repo.func(q) for q in BOUNDED_ENTRIES] + repo.implementations('SpawnBase', 'read_nonblocking')
    rs = reach(repo, entries)
    R.extra['block_reachable_units'] = len(rs)
    n_sites = 0
    for f, chain in sorted(rs.items(), key=lambda kv: kv[0].qual):
        via = ' -> '.join(chain)
        for k in calls_in(f.node):
            d = dotted(k.func) or ''
            last = d.split('.')[-1]
            if d == 'os.waitpid':
                n_sites += 1
                opt = k.args[1] if len(k.args) > 1 else None
                vals = possible_values(f, opt)
                blocking = opt is None or any(v == '0' for v in vals) or not vals
                c.check(not blocking, f, k, 'os.waitpid is non-blocking (WNOHANG) on every path reachable from a timeout-bounded entry',
                        witness='options may be %s; reached via %s' % (sorted(vals) or 'unknown', via), kind='flow', tag='waitpid')
            elif last == 'wait' and not k.args and d.split('.')[0] in ('self', 'ptyproc') and \
                    (d.endswith('proc.wait') or d.endswith('ptyproc.wait')):
                n_sites += 1
                c.bad(f, k, 'unbounded wait() reachable from a timeout-bounded entry', witness='via ' + via, kind='flow', tag='wait')
            elif d in ('select.select',) or last in ('select_ignore_interrupts', 'poll_ignore_interrupts') or \
                    (last == 'select' and isinstance(k.func, ast.Name)) or (last == 'poll' and d != 'select.poll'):
                n_sites += 1
                targ = timeout_arg(repo, f, k)
                ok, why = bounded_timeout_expr(f, targ)
                c.check(ok, f, k, 'the wait is bounded by a timeout derived from the entry\'s remaining time (or a constant)',
                        witness='%s; reached via %s' % (why, via), kind='flow', tag='wait-timeout:' + norm(k)[:50])
            elif last == 'get' and '_read_queue' in d:
                n_sites += 1
                okq = any(kw.arg in ('timeout', 'block') for kw in k.keywords) or len(k.args) >= 1
                c.check(okq, f, k, 'queue read does not block without bound', witness='via ' + via, kind='flow', tag='queue-get')
            elif last == 'settimeout':
                # only a timeout that is in force while the body of the with statement (the recv) runs is a wait bound;
                # putting the socket's own value back afterwards is C06's concern
                ys_ = [y for y in f.cfg.nodes if y.ast is not None and any(isinstance(x, (ast.Yield, ast.YieldFrom)) for r_ in node_roots(y) for x in ast.walk(r_))]
                kn_ = f.cfg.node_for(k)
                if ys_ and kn_ is not None and not any(f.cfg.path(kn_, y, skip_labels=('exc',)) is not None for y in ys_):
                    continue
                n_sites += 1
                a = k.args[0] if k.args else None
                ok, why = bounded_timeout_expr(f, a)
                c.check(ok, f, k, 'socket timeout derived from the caller\'s timeout', witness=why, kind='flow', tag='settimeout:' + norm(k)[:40])
            elif d == 'time.sleep':
                n_sites += 1
                a = k.args[0] if k.args else None
                if isinstance(a, ast.Name):
                    # a local that holds the configured delay (read once per iteration)
                    v_ = aliases_of(f).single_assign.get(a.id) or getattr(aliases_of(f), 'stale_single', {}).get(a.id)
                    a = v_ if v_ is not None else a
                okc = isinstance(a, ast.Constant) and isinstance(a.value, (int, float)) and a.value <= 1 or \
                    (isinstance(a, ast.Attribute) and a.attr in ('delayafterread', 'delaybeforesend', 'delayafterclose', 'delayafterterminate'))
                c.check(okc, f, k, 'sleep is a small constant / configured delay', witness=norm(k), kind='ast', tag='sleep')
            elif last == 'wait_for' and 'asyncio' in d:
                n_sites += 1
                a = k.args[1] if len(k.args) > 1 else None
                c.check(a is not None and is_name(a, 'timeout'), f, k, 'the awaited future is bounded by the call\'s timeout',
                        witness=norm(k), kind='ast', tag='wait_for')
    c.need(n_sites >= 8, 'only %d blocking-primitive sites found on the reachable call graph' % n_sites)


def possible_values(f, e):
    """set of source texts a (local) expression may evaluate to"""
    if e is None:
        return set()
    if isinstance(e, ast.Name):
        vals = set()
        for n in iter_nodes(f.node):
            if isinstance(n, ast.Assign) and e.id in assigned_names(n):
                vals.add(norm(n.value))
        return vals
    return {norm(e)}


def timeout_arg(repo, f, k):
    d = dotted(k.func) or ''
    last = d.split('.')[-1]
    if d == 'select.select' or last == 'select_ignore_interrupts':
        for kw in k.keywords:
            if kw.arg == 'timeout':
                return kw.value
        return k.args[3] if len(k.args) > 3 else None
    if last == 'poll_ignore_interrupts':
        for kw in k.keywords:
            if kw.arg == 'timeout':
                return kw.value
        return k.args[1] if len(k.args) > 1 else None
    return k.args[0] if k.args else None


def bounded_timeout_expr(f, a):
    if a is None:
        return False, 'no timeout argument (blocks forever)'
    if isinstance(a, ast.Constant):
        if a.value is None:
            return False, 'timeout is the constant None (blocks forever)'
        return True, 'constant %r' % (a.value,)
    if isinstance(a, ast.Name):
        if a.id in f.params:
            return True, 'parameter %s' % a.id
        defs = [n for n in iter_nodes(f.node) if isinstance(n, ast.Assign) and a.id in assigned_names(n)]

        def none_on_request(d):
            # `x = None` only where a parameter is None: the caller asked for an unbounded wait
            if not (isinstance(d.value, ast.Constant) and d.value.value is None):
                return False
            nd = f.cfg.node_of_stmt(d)
            return nd is not None and any(v and a_.endswith(' is None') and a_[:-8] in f.params for a_, v in conditions(f.cfg, nd))
        if defs and all(any(isinstance(x, ast.Name) and x.id in f.params for x in ast.walk(d.value)) or
                        isinstance(d.value, ast.Constant) and d.value.value is not None or
                        (isinstance(d.value, ast.BinOp)) or none_on_request(d) for d in defs):
            return True, 'local derived from a parameter'
        return False, 'local %s is not derived from the timeout parameter' % a.id
    if isinstance(a, ast.Attribute):
        return False, 'uses %s instead of the remaining time of this call' % norm(a)
    if isinstance(a, (ast.BinOp, ast.IfExp)):
        if any(isinstance(x, ast.Name) and x.id in f.params for x in ast.walk(a)):
            return True, 'expression over a parameter'
    return False, 'timeout expression %s not understood as bounded' % norm(a)


def conjuncts(e):
    if isinstance(e, ast.BoolOp) and isinstance(e.op, ast.And):
        out = []
        for v in e.values:
            out.extend(conjuncts(v))
        return out
    return [e]


def check_pty_polls(c, repo):
    f = repo.func('pty_spawn:spawn.read_nonblocking')
    g = f.cfg
    polls = cfg_nodes_with_call(f, lambda k: isinstance(k.func, ast.Name) and k.func.id == 'select')
    c.need(len(polls) >= 4, 'spawn.read_nonblocking: expected >= 4 select() polls, found %d' % len(polls))
    timed = [(n, k) for n, k in polls if k.args and is_name(k.args[0], 'timeout')]
    c.check(len(timed) == 1, f, timed[0][1] if timed else None, 'exactly one poll waits with the (remaining) timeout', witness=str([norm(k) for n, k in polls]), kind='ast', tag='one-timed-poll')
    for n, k in polls:
        if (n, k) in timed:
            continue
        c.check(k.args and is_const(k.args[0], 0), f, k, 'every other poll is a non-blocking probe select(0) (the read must never wait longer than the timeout it was given)',
                witness=norm(k), kind='ast', tag='probe-zero:L%d' % 0 if False else 'probe-zero:' + str(polls.index((n, k))))
    # every actual read happens only after a poll reported the descriptor ready
    reads = cfg_nodes_with_call(f, lambda k: callee_last(k) == 'read_nonblocking' and isinstance(k.func.value, ast.Call))
    for n, k in reads:
        ok = any(v and a.startswith('select(') for a, v in conditions(g, n))
        c.check(ok, f, k, 'the (blocking) os.read is reached only when a poll just reported data: it is conditional on select(...) being true',
                witness=norm(k), kind='path', tag='read-after-ready:' + str(reads.index((n, k))))
    # the timed wait is skipped only for timeout == 0
    if timed:
        tn = [t for t in g.nodes if t.kind == 'test' and any(x is timed[0][1] for x in ast.walk(t.ast))]
        got = eval_conditions(g, tn[0], timed[0][1]) if len(tn) == 1 else None
        # evaluated exactly when timeout != 0 (and not inside any other decision made after the sentinel was replaced)
        sent = [t for t in g.nodes if t.kind == 'test' and atom_key(t.ast)[0] == atom_key(ast.parse('timeout == -1', mode='eval').body)[0]]
        base = conditions(g, sent[0]) if len(sent) == 1 else set()
        need = atom_key(ast.parse('timeout == 0', mode='eval').body, False)
        ok = got is not None and need in got and got - base <= {need, ('self.isalive()', True)}
        c.check(ok, f, tn[0].ast if tn else None, 'the timed wait is skipped exactly for timeout == 0 and otherwise decides whether data arrived',
                witness='evaluated under %s' % sorted(got or []), kind='alg', tag='timed-wait-guard')
    # waitnoecho outcomes
    w = repo.func('pty_spawn:spawn.waitnoecho')
    gw = w.cfg
    te = [t for t in gw.nodes if t.kind == 'test' and any(callee_last(k) == 'getecho' for k in calls_in(t.ast))]
    c.need(len(te) == 1, 'waitnoecho: echo test not found')
    co, lab = truth(te[0].ast)
    off = other(lab)             # the outcome on which the echo flag is OFF
    rt = set(r for r in returns(w) if is_const(r.ast.value, True))
    nx = [s2 for s2, l2 in te[0].succ if l2 == off]
    busy = set(n for n in gw.nodes if n.ast is not None and n is not te[0] and any(callee_last(k) in ('sleep', 'getecho') for k in node_calls(n)))
    others_ = set(r for r in returns(w) if r not in rt) | set(raises(w)) | {gw.exit}
    ok = norm(co) == 'self.getecho()' and bool(rt) and len(nx) == 1 and \
        (nx[0] in rt or gw.path(nx[0], busy | others_, avoid=rt, skip_labels=('exc',)) is None) and \
        gw.must_pass(gw.entry, rt, set(), skip_labels=('exc',), through_edges={(te[0], off)})[0]
    c.check(ok, w, te[0].ast, 'waitnoecho returns True exactly when the echo flag is found off', witness=norm(te[0].ast), kind='path', tag='noecho-true')
    # it keeps polling until one of the two outcomes: from the echo-on outcome the only ways on are `return False` or another echo test
    on = [s2 for s2, l2 in te[0].succ if l2 == lab]
    rf = set(r for r in returns(w) if is_const(r.ast.value, False))
    okl = len(on) == 1 and gw.path(on[0], (set(returns(w)) - rf) | set(raises(w)) | {gw.exit}, avoid={te[0]} | rf, skip_labels=('exc',)) is None \
        and gw.path(on[0], {te[0]}, skip_labels=('exc',)) is not None
    c.check(okl, w, te[0].ast, 'it keeps polling until one of the two outcomes', kind='path', tag='noecho-loop')


# ------------------------------------------------------------------ D6 / D7

def check_nodata(c, repo):
    f = repo.func('socket_pexpect:SocketSpawn.read_nonblocking')
    recvs = [k for k in calls_in(f.node) if callee_last(k) == 'recv']
    c.need(len(recvs) == 1, 'SocketSpawn.read_nonblocking: recv not found')
    tr = [p for p in parent_chain(recvs[0]) if isinstance(p, ast.Try)]
    c.need(tr, 'recv is not inside a try')
    caught = set()
    ok_raise = True
    for h in tr[0].handlers:
        names = [(dotted(e) or '') for e in (h.type.elts if isinstance(h.type, ast.Tuple) else [h.type])] if h.type is not None else []
        rs = [s for s in h.body if isinstance(s, ast.Raise)]
        if rs and raised_class(rs[-1], f) == 'TIMEOUT':
            caught.update(names)
    for need in ('socket.timeout', 'BlockingIOError'):
        c.check(need in caught or ('OSError' in caught and False), f, tr[0],
                'recv() signalling "nothing arrived" with %s is reported as TIMEOUT (%s)' % (
                    need, 't > 0' if need == 'socket.timeout' else 't == 0: non-blocking socket'),
                witness='handlers translating to TIMEOUT: %s' % sorted(caught), kind='ast', tag='socket-' + need)
    f = repo.func('fdpexpect:fdspawn.read_nonblocking')
    g = f.cfg
    rs = [r for r in raises(f) if raised_class(r.ast, f) == 'TIMEOUT']
    tests = [t for t in g.nodes if t.kind == 'test' and 'not in' in norm(t.ast) and 'child_fd' in norm(t.ast)]
    c.check(len(rs) == 1 and len(tests) == 1 and rs[0] in guard_region(g, tests[0], 'true'), f, rs[0].ast if rs else None,
            'descriptor not ready after the wait -> TIMEOUT', kind='path', tag='fd-timeout')
    f = repo.func('pty_spawn:spawn.read_nonblocking')
    rs = [r for r in raises(f) if raised_class(r.ast, f) == 'TIMEOUT']
    c.check(len(rs) >= 1, f, rs[0].ast if rs else None, 'pty: nothing readable and child alive -> TIMEOUT', kind='ast', tag='pty-timeout')


def check_socket_timeout(c, repo, restore=True):
    """restore=True (C06-D5): also require that the socket's own timeout is put back in a finally;
    restore=False (C05-D7): only that recv runs under a timeout derived from the caller's;
    restore='leak' (C08-D6): only that SOME timeout is set again in a finally covering the yield, i.e. the temporary
    read timeout cannot stay in force for a later sendall (which value is put back is C06's concern)."""
    f = repo.func('socket_pexpect:SocketSpawn._timeout')
    if restore == 'leak':
        ys = [n for n in ast.walk(f.node) if isinstance(n, (ast.Yield, ast.YieldFrom))]
        c.need(len(ys) == 1, '_timeout: expected one yield')
        ok = False
        ks = [k for k in calls_in(f.node) if callee_last(k) == 'settimeout']
        for k in ks:
            for p in parent_chain(k):
                if isinstance(p, ast.Try) and any(k is d for s2 in p.finalbody for d in ast.walk(s2)) \
                        and any(ys[0] is d for s2 in p.body for d in ast.walk(s2)):
                    ok = True
        c.check(ok, f, ks[0] if ks else f.node, 'the temporary read timeout is replaced again in a finally clause covering the with-body, so a read that ends in '
                'TIMEOUT / EOF cannot leave it in force for the next sendall() (which would then fail half-way through the data)',
                witness=str([norm(k) for k in ks]), kind='ast', tag='no-timeout-leak')
        f2 = repo.func('socket_pexpect:SocketSpawn.send')
        c.check(not any(callee_last(k) in ('settimeout', 'setblocking') for k in calls_in(f2.node)), f2, None,
                'send() itself does not change the socket\'s blocking mode', kind='ast', tag='send-no-mode-change')
        return
    g = f.cfg
    saves = [n for n in g.nodes if n.kind == 'stmt' and isinstance(n.ast, ast.Assign) and isinstance(n.ast.value, ast.Call)
             and callee_last(n.ast.value) == 'gettimeout']
    ys = [n for n in ast.walk(f.node) if isinstance(n, (ast.Yield, ast.YieldFrom))]
    c.need(len(ys) == 1, '_timeout: expected one yield')
    if restore:
        c.check(len(saves) == 1, f, saves[0].ast if saves else f.node,
                'the socket\'s own timeout is read in the same invocation, just before it is changed (a value remembered from '
                'an earlier time would undo a change the owner of the socket made in between)',
                witness='%d gettimeout() reads in _timeout' % len(saves), kind='ast', tag='save-here')
    if len(saves) != 1:
        saves = []
    sv = saves[0].ast.targets[0].id if saves else None
    restores = [k for k in calls_in(f.node) if callee_last(k) == 'settimeout' and k.args and sv and is_name(k.args[0], sv)]
    in_finally = False
    for k in restores:
        for p in parent_chain(k):
            if isinstance(p, ast.Try) and any(k is d for s2 in p.finalbody for d in ast.walk(s2)) \
                    and any(ys[0] is d for s2 in p.body for d in ast.walk(s2)):
                in_finally = True
    if restore:
        c.check(bool(restores) and in_finally, f, restores[0] if restores else f.node,
                'the saved timeout is restored in a finally clause that covers the yield (the body of the with statement), '
                'so an exception or TIMEOUT inside recv cannot leave the socket with the temporary timeout',
                witness='restore calls: %s; inside a finally covering the yield: %s' % ([norm(k) for k in restores], in_finally),
                kind='ast', tag='restore-finally')
    sets = [k for k in calls_in(f.node) if callee_last(k) == 'settimeout' and k not in restores]
    if restore and saves:
        okorder = bool(sets) and all(g.dominated_by(g.node_for(k), {saves[0]})[0] for k in sets if g.node_for(k) is not None)
        c.check(okorder, f, saves[0].ast, 'the old timeout is read before it is changed', kind='path', tag='save-first')
    f2 = repo.func('socket_pexpect:SocketSpawn.read_nonblocking')
    recvs = [k for k in calls_in(f2.node) if callee_last(k) == 'recv']
    c.need(len(recvs) == 1, 'recv not found')
    ws = [p for p in parent_chain(recvs[0]) if isinstance(p, ast.With)]
    def callers_timeout(e):
        # the caller's timeout itself, or a local copy of it (possibly with the -1 sentinel replaced by the instance default on the way)
        if is_name(e, 'timeout'):
            return True
        if not isinstance(e, ast.Name):
            return False
        defs = [n for n in ast.walk(f2.node) if isinstance(n, ast.Assign) and e.id in assigned_names(n)]
        return bool(defs) and any(is_name(d.value, 'timeout') for d in defs) and \
            all(is_name(d.value, 'timeout') or norm(d.value) == 'self.timeout' for d in defs)
    ok = bool(ws) and any(isinstance(i.context_expr, ast.Call) and callee_last(i.context_expr) == '_timeout'
                          and i.context_expr.args and callers_timeout(i.context_expr.args[0]) for i in ws[0].items)
    c.check(ok, f2, recvs[0], 'recv happens inside `with self._timeout(timeout)`', kind='ast', tag='recv-inside-with')
    decos = [src(d) for d in f.node.decorator_list]
    c.check('contextmanager' in decos, f, f.node, '_timeout is a context manager', kind='ast', tag='is-contextmanager')


MUTANTS = [
    ('waitnoecho-deadline-truthy', 'pty_spawn', '        if timeout is not None:\n            end_time = time.time() + timeout\n        while True:\n            if not self.getecho():\n                return True\n            if timeout is not None and timeout < 0:\n                return False\n            if timeout is not None:\n                timeout = end_time - time.time()\n            time.sleep(0.1)\n', '        end_time = time.time() + timeout if timeout else None\n        while self.getecho():\n            if end_time is not None and time.time() > end_time:\n                return False\n            time.sleep(0.1)\n        return True\n', 'D3'),
    ('expect_list-no-norm', 'spawnbase', "        if timeout == -1:\n            timeout = self.timeout\n        if 'async' in kw:\n            async_ = kw.pop('async')\n        if kw:\n            raise TypeError(\"Unknown keyword arguments: {}\".format(kw))\n\n        exp = Expecter(self, searcher_re(pattern_list), searchwindowsize)",
     "        if 'async' in kw:\n            async_ = kw.pop('async')\n        if kw:\n            raise TypeError(\"Unknown keyword arguments: {}\".format(kw))\n\n        exp = Expecter(self, searcher_re(pattern_list), searchwindowsize)", 'D1'),
    ('expect_loop-no-norm', 'spawnbase', "        if timeout == -1:\n            timeout = self.timeout\n        exp = Expecter(self, searcher, searchwindowsize)", "        exp = Expecter(self, searcher, searchwindowsize)", 'D1'),
    ('fd-norm-late', 'fdpexpect', "            if timeout == -1:\n                timeout = self.timeout\n            rlist = [self.child_fd]", "            rlist = [self.child_fd]", 'D1'),
    ('waitnoecho-none-order', 'pty_spawn', "            if timeout is not None and timeout < 0:\n                return False", "            if timeout < 0 and timeout is not None:\n                return False", 'D2'),
    ('popen-elif-none', 'popen_spawn', "        if timeout == -1:\n            timeout = self.timeout\n        if timeout is None:", "        if timeout == -1:\n            timeout = self.timeout\n        elif timeout is None:", 'D2'),
    ('send-sleep-unguarded', 'pty_spawn', "        if self.delaybeforesend is not None:\n            time.sleep(self.delaybeforesend)", "        time.sleep(self.delaybeforesend)", 'D2'),
    ('end-time-in-loop', 'expect', "                incoming = spawn.read_nonblocking(spawn.maxread, timeout)", "                if timeout is not None:\n                    end_time = time.time() + timeout\n                incoming = spawn.read_nonblocking(spawn.maxread, timeout)", 'D3'),
    ('no-recompute', 'expect', "                if timeout is not None:\n                    timeout = end_time - time.time()\n        except EOF", "        except EOF", 'D3'),
    ('expiry-le', 'expect', "if (timeout is not None) and (timeout < 0):", "if (timeout is not None) and (timeout <= 0):", 'D3'),
    ('recompute-only-sometimes', 'expect', "                if timeout is not None:\n                    timeout = end_time - time.time()\n        except EOF", "                if timeout is not None and len(incoming) > 0:\n                    timeout = end_time - time.time()\n        except EOF", 'D3'),
    ('read-gets-default', 'expect', "incoming = spawn.read_nonblocking(spawn.maxread, timeout)", "incoming = spawn.read_nonblocking(spawn.maxread, spawn.timeout)", 'D3'),
    ('select-eintr-no-recompute', 'utils', "                if timeout is not None:\n                    timeout = end_time - time.time()\n                    if timeout < 0:\n                        return([], [], [])", "                pass", 'D4'),
    ('poll-seconds', 'utils', "timeout_ms = None if timeout is None else timeout * 1000", "timeout_ms = None if timeout is None else timeout", 'D4'),
    ('poll-swallow-errors', 'utils', "                    if timeout < 0:\n                        return []\n            else:\n                # something else caused the select.error, so\n                # this actually is an exception.\n                raise", "                    if timeout < 0:\n                        return []\n            else:\n                return []", 'D4'),
    ('popen-sentinel-inverted', 'popen_spawn', "        if timeout == -1:\n            timeout = self.timeout\n        if timeout is None:", "        if timeout != -1:\n            timeout = self.timeout\n        if timeout is None:", 'D1'),
    ('select-eintr-inverted', 'utils', "            if err.args[0] == errno.EINTR:\n                # if we loop back we have to subtract the\n                # amount of time we already waited.\n                if timeout is not None:\n                    timeout = end_time - time.time()\n                    if timeout < 0:\n                        return([], [], [])", "            if err.args[0] != errno.EINTR:\n                # if we loop back we have to subtract the\n                # amount of time we already waited.\n                if timeout is not None:\n                    timeout = end_time - time.time()\n                    if timeout < 0:\n                        return([], [], [])", 'D4'),
    ('poll-no-register', 'utils', "    for fd in fds:\n        poller.register(fd, select.POLLIN | select.POLLPRI | select.POLLHUP | select.POLLERR)\n", "", 'D4'),
    ('select-none', 'pty_spawn', "        if (timeout != 0) and select(timeout):", "        if (timeout != 0) and select(None):", 'D5'),
    ('select-default', 'pty_spawn', "        if (timeout != 0) and select(timeout):", "        if (timeout != 0) and select(self.timeout):", 'D5'),
    ('first-poll-blocks', 'pty_spawn', "        if select(0):\n            try:\n                incoming = super(spawn, self).read_nonblocking(size)", "        if select(1):\n            try:\n                incoming = super(spawn, self).read_nonblocking(size)", 'D8'),
    ('timed-wait-or', 'pty_spawn', "        if (timeout != 0) and select(timeout):", "        if (timeout != 0) or select(timeout):", 'D8'),
    ('waitnoecho-inverted', 'pty_spawn', "            if not self.getecho():\n                return True", "            if self.getecho():\n                return True", 'D8'),
    ('read-waits', 'pty_spawn', "        if not self.isalive():\n            # The process is dead, but there may or may not be data", "        if self.flag_eof:\n            self.ptyproc.wait()\n        if not self.isalive():\n            # The process is dead, but there may or may not be data", 'D5'),
    ('queue-blocking-get', 'popen_spawn', "incoming = self._read_queue.get_nowait()", "incoming = self._read_queue.get()", 'D5'),
    ('socket-no-blockingio', 'socket_pexpect', "        except (socket.timeout, BlockingIOError):", "        except socket.timeout:", 'D6'),
    ('socket-recv-outside-with', 'socket_pexpect', "            with self._timeout(timeout):\n                s = self.socket.recv(size)", "            with self._timeout(timeout):\n                pass\n            if True:\n                s = self.socket.recv(size)", 'D7'),
    ('fd-select-default', 'fdpexpect', "                rlist = poll_ignore_interrupts(rlist, timeout)", "                rlist = poll_ignore_interrupts(rlist, self.timeout)", 'D5'),
    ('prompt-no-norm', 'replwrap', "        return self.child.expect_exact([self.prompt, self.continuation_prompt],\n                                       timeout=timeout, async_=async_)", "        end = time.time() + timeout\n        return self.child.expect_exact([self.prompt, self.continuation_prompt],\n                                       timeout=timeout, async_=async_)", 'D1'),
]
PRESERVING = [
    ('waitnoecho-absolute-deadline', 'pty_spawn', '        if timeout is not None:\n            end_time = time.time() + timeout\n        while True:\n            if not self.getecho():\n                return True\n            if timeout is not None and timeout < 0:\n                return False\n            if timeout is not None:\n                timeout = end_time - time.time()\n            time.sleep(0.1)\n', '        end_time = None if timeout is None else time.time() + timeout\n        while self.getecho():\n            if end_time is not None and time.time() > end_time:\n                return False\n            time.sleep(0.1)\n        return True\n'),
    ('waitnoecho-remaining-copy', 'pty_spawn', '        if timeout is not None:\n            end_time = time.time() + timeout\n        while True:\n            if not self.getecho():\n                return True\n            if timeout is not None and timeout < 0:\n                return False\n            if timeout is not None:\n                timeout = end_time - time.time()\n            time.sleep(0.1)\n', '        remaining = timeout\n        deadline = None\n        if timeout is not None:\n            deadline = time.time() + timeout\n        while self.getecho():\n            if remaining is not None and remaining < 0:\n                return False\n            if deadline is not None:\n                remaining = deadline - time.time()\n            time.sleep(0.1)\n        return True\n'),
    ('norm-attr-alias', 'fdpexpect', "            if timeout == -1:\n                timeout = self.timeout\n            rlist", "            if timeout == -1:\n                timeout = self.timeout\n            unused = timeout\n            rlist"),
    ('delay-guard-truthy', 'expect', "                if self.spawn.delayafterread is not None:\n                    time.sleep(self.spawn.delayafterread)", "                if self.spawn.delayafterread:\n                    time.sleep(self.spawn.delayafterread)"),
]

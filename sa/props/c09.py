"""C09 Exit status truth -- copy discipline of the status fields."""
import ast

from ..astx import (calls_in, dotted, norm, src, iter_nodes, assigned_targets, assigned_names,
                    const_value, is_const, parent_chain)
from ..lib import (call_arg, relation, truth, other, cmp_views, core, holds_region, conditions, found_test, found_tests, path_tests, entails_empty, paths_entail_empty, eval_conditions, relation_tests, atom_key, expand_condition, mode_mismatch_conditions, cfg_nodes_with_call, node_calls, returns, stmt_assigns_attr, callee_last,
                   is_name, is_self_attr, node_roots, guard_region, compare_parts, find_test_nodes)
from ..lib import *      # noqa: F401,F403  (path-condition helpers)
from ..linear import ctext, lin, Lin
from ..loader import AnalysisError

EXPLANATION = (
    "Static analysis of how the child's fate travels from ptyprocess / subprocess into the spawn object -- the copy "
    "discipline, not the truth of the values: (D1) in spawn.wait and in the not-alive branch of spawn.isalive each of "
    "status / exitstatus / signalstatus is assigned from the SAME-named ptyprocess attribute and terminated is set, "
    "all four on every path that reports the death; (D2) wait() returns exactly what ptyprocess.wait() returned on "
    "every path, close() refreshes the status through isalive() after closing the pty, run() closes before it reads "
    "exitstatus; (D3) PopenSpawn.wait classifies the return code by sign with 0 an exit code, assigns both fields in "
    "both branches (exactly one of them None), sets terminated and returns the code; (D4) who-may-consult: ptyprocess' "
    "liveness/wait are called only from spawn.isalive/spawn.wait (anything else would observe the death without "
    "copying the fields); (D5) who-may-write: the status fields are written only by the constructors, _spawn, wait "
    "and isalive. NOT decided (most of the property): that the values equal the child's real fate -- that is "
    "os.waitpid and ptyprocess.")
TRUSTED = ["ptyprocess.PtyProcess.wait/isalive decode os.waitpid correctly", "subprocess.Popen.wait returns -signal for a signalled child", "sa/ engine"]
ASSUMPTIONS = []
LEVEL_TEXT = ("Static analysis of the copy discipline only: same-named field copies on all paths, wait() returns the "
              "library's result, close-before-exitstatus ordering, sign classification of the Popen return code by "
              "constant substitution, who-may-consult / who-may-write rules over the package.")
LEVEL_NOTE = "Trusted: ptyprocess/subprocess status decoding; analyser. The real exit status is not decided by any static argument here."
TECHNIQUE = "def-use / dominators on the CFG + who-may-write query (static analysis)"

FIELDS = ('status', 'exitstatus', 'signalstatus')


def run(R):
    repo = R.repo
    with R.clause('D1', 'COPY', floor=10, desc='status fields copied from the same-named ptyprocess attributes, all of them, on every path') as c:
        check_copies(c, repo.func('pty_spawn:spawn.wait'), None)
        f = repo.func('pty_spawn:spawn.isalive')
        check_copies(c, f, 'dead-branch')
    with R.clause('D2', 'ORDER', floor=5, desc='wait() returns the library result; close() refreshes status; run() closes before reading exitstatus') as c:
        check_order(c, repo)
    with R.clause('D3', 'SIGN', floor=10, desc='PopenSpawn.wait: sign classification, both fields in both branches, 0 is an exit code') as c:
        check_popen_wait(c, repo.func('popen_spawn:PopenSpawn.wait'))
    with R.clause('D4', 'OWN', floor=3, desc='only isalive()/wait() consult ptyprocess about the child\'s fate') as c:
        n = 0
        for f in repo.package_funcs():
            for k in calls_in(f.node):
                if isinstance(k.func, ast.Attribute) and k.func.attr in ('wait', 'isalive') and \
                        (ctext(k.func.value, f, stale_ok=True) or '').endswith('ptyproc'):
                    n += 1
                    ok = f.qual in ('pty_spawn:spawn.wait', 'pty_spawn:spawn.isalive') and k.func.attr == f.name
                    c.check(ok, f, k, 'ptyprocess.%s() is consulted only by spawn.%s(), which copies the result into the spawn object'
                            % (k.func.attr, k.func.attr), witness='called from %s' % f.qual, kind='ast', tag='consult:' + f.qual)
                if isinstance(k.func, ast.Attribute) and k.func.attr in ('wait', 'poll') and (ctext(k.func.value, f) or '').endswith('.proc'):
                    n += 1
                    c.check(f.qual == 'popen_spawn:PopenSpawn.wait', f, k, 'Popen.wait() is consulted only by PopenSpawn.wait()', kind='ast', tag='consult:' + f.qual)
        c.need(n >= 3, 'expected >= 3 liveness consultations, found %d' % n)
    with R.clause('D5', 'OWN', floor=10, desc='status fields are written only where the death is observed (and initialised)') as c:
        allowed = {'spawnbase:SpawnBase.__init__', 'pty_spawn:spawn._spawn', 'pty_spawn:spawn.wait', 'pty_spawn:spawn.isalive',
                   'popen_spawn:PopenSpawn.wait'}
        for f in repo.package_funcs():
            if f.cls is None or not repo.is_subclass(f.cls, 'SpawnBase'):
                continue
            for n in iter_nodes(f.node):
                if isinstance(n, (ast.Assign, ast.AugAssign)):
                    for t in assigned_targets(n):
                        if isinstance(t, ast.Attribute) and is_name(t.value, 'self') and t.attr in FIELDS + ('terminated',):
                            c.check(f.qual in allowed, f, n, 'self.%s is written only by the constructor, _spawn, wait() and isalive()' % t.attr,
                                    witness='written in %s' % f.qual, kind='ast', tag='write:%s:%s' % (f.qual, t.attr))


def check_copies(c, f, mode):
    g = f.cfg
    al_src = None
    term = [n for n in g.nodes if n.kind == 'stmt' and stmt_assigns_attr(n.ast, 'terminated') is not None]
    if not term:
        # the status fields are copied here but the object is never marked terminated: `terminated` stays False for a child that is gone
        anyc = [n for n in g.nodes if n.kind == 'stmt' and any(stmt_assigns_attr(n.ast, fld) is not None for fld in FIELDS)]
        c.bad(f, anyc[0].ast if anyc else f.node, '%s observes the end of the child but never sets self.terminated = True' % f.name, kind='ast', tag='terminated-set')
        return
    c.need(len(term) == 1 and is_const(term[0].ast.value, True), '%s: self.terminated = True not found exactly once' % f.qual)
    c.ok(f, term[0].ast, 'the object is marked terminated where the end of the child is observed', kind='ast', tag='terminated-set')
    tn = term[0]
    for fld in FIELDS:
        asg = [n for n in g.nodes if n.kind == 'stmt' and stmt_assigns_attr(n.ast, fld) is not None
               and is_name(stmt_assigns_attr(n.ast, fld).value, 'self')]
        ok = len(asg) == 1 and ctext(asg[0].ast.value, f, stale_ok=True) == 'self.ptyproc.' + fld          # the process object that was waited on
        c.check(ok, f, asg[0].ast if asg else tn.ast, 'self.%s = ptyproc.%s (same-named field, no crossing)' % (fld, fld),
                witness=str([norm(a.ast) for a in asg]) or 'missing', kind='ast', tag='copy:' + fld)
        if asg:
            # on every path that sets terminated, the copy happens too (either order)
            ok1, p1 = g.dominated_by(tn, {asg[0]})
            ok2 = g.dominated_by(asg[0], {tn})[0] and g.must_pass(tn, {g.exit}, {asg[0]}, skip_labels=('exc',))[0]
            c.check(ok1 or ok2, f, asg[0].ast, 'the copy of %s happens on every path that marks the child terminated' % fld,
                    witness=g.describe_path(p1) if p1 else None, tag='copy-all-paths:' + fld)
    if mode == 'dead-branch':
        tests = [t for t in g.nodes if t.kind == 'test']
        c.need(len(tests) == 1, 'spawn.isalive: expected one test')
        t = tests[0]
        cp = norm(t.ast)
        alive_calls = cfg_nodes_with_call(f, lambda k: callee_last(k) == 'isalive' and (ctext(k.func.value, f, stale_ok=True) or '').endswith('ptyproc'))
        c.need(len(alive_calls) == 1 and isinstance(alive_calls[0][0].ast, ast.Assign), 'alive = ptyproc.isalive() not found')
        av = alive_calls[0][0].ast.targets[0].id
        edge = 'true' if cp == 'not %s' % av else ('false' if cp == av else None)
        c.check(edge is not None and tn in guard_region(g, t, edge), f, t.ast, 'the fields are refreshed exactly when ptyprocess reports the child dead',
                witness=cp, tag='dead-branch')
        rets = returns(f)
        c.check(len(rets) == 1 and is_name(rets[0].ast.value, av), f, rets[0].ast if rets else None, 'isalive() returns ptyprocess\' answer unchanged', kind='ast', tag='returns-alive')


def check_order(c, repo):
    f = repo.func('pty_spawn:spawn.wait')
    g = f.cfg
    ws = cfg_nodes_with_call(f, lambda k: callee_last(k) == 'wait' and (ctext(k.func.value, f, stale_ok=True) or '').endswith('ptyproc'))
    c.need(len(ws) == 1 and isinstance(ws[0][0].ast, ast.Assign), 'spawn.wait: exitstatus = ptyproc.wait() not found')
    wv = ws[0][0].ast.targets[0].id
    rets = returns(f)
    for r in rets:
        ok = is_name(r.ast.value, wv) and g.dominated_by(r, {ws[0][0]})[0]
        c.check(ok, f, r.ast, 'wait() returns what ptyprocess.wait() returned (the exit code), on every path',
                witness='returns %s' % norm(r.ast.value), tag='wait-returns:' + norm(r.ast.value)[:30])
    c.need(rets, 'spawn.wait has no return')
    f = repo.func('pty_spawn:spawn.close')
    g = f.cfg
    cl = cfg_nodes_with_call(f, lambda k: callee_last(k) == 'close' and (ctext(k.func.value, f, stale_ok=True) or '').endswith('ptyproc'))
    al = cfg_nodes_with_call(f, lambda k: callee_last(k) == 'isalive' and ctext(k.func.value, f) == 'self')
    c.need(len(cl) == 1, 'spawn.close: ptyproc.close() not found')
    after = [a for a in al if g.dominated_by(a[0], {cl[0][0]})[0]]
    ok = bool(after) and g.must_pass(cl[0][0], {g.exit}, set(a[0] for a in after), skip_labels=('exc',))[0]
    c.check(ok, f, al[0][1] if al else cl[0][1], 'whenever close() closes the pty it refreshes the status via isalive() afterwards', tag='close-refresh')
    f = repo.func('pty_spawn:spawn.read_nonblocking')
    hs = [h for h in iter_nodes(f.node) if isinstance(h, ast.ExceptHandler) and norm(h.type) == 'EOF']
    c.need(len(hs) >= 2, 'spawn.read_nonblocking: EOF handlers not found')
    for h in hs:
        first = h.body[0] if h.body else None
        ok = isinstance(first, ast.Expr) and isinstance(first.value, ast.Call) and callee_last(first.value) == 'isalive' and ctext(first.value.func.value, f) == 'self'
        c.check(ok, f, h, 'a read that hits EOF refreshes the exit status (self.isalive()) before it returns / re-raises', witness=norm(first) if first is not None else 'empty handler',
                kind='ast', tag='eof-refresh:L%s' % hs.index(h))
    f = repo.func('run:run')
    g = f.cfg
    closes = [n for n, k in cfg_nodes_with_call(f, lambda k: callee_last(k) == 'close')]
    nreads = 0
    for n in g.nodes:
        if n.ast is None or n.kind not in ('stmt', 'test'):
            continue
        reads = [x for x in ast.walk(n.ast) if isinstance(x, ast.Attribute) and x.attr in ('exitstatus', 'signalstatus', 'status')
                 and isinstance(x.ctx, ast.Load)]
        if not reads:
            continue
        nreads += 1
        ok, p = g.dominated_by(n, set(closes))
        c.check(ok, f, n.ast, 'run() reads the exit status only after child.close()', witness=g.describe_path(p) if p else None, tag='run-close-first:' + norm(n.ast)[:30])
        if isinstance(n.ast, ast.Return):
            c.check(all(x.attr == 'exitstatus' for x in reads) and isinstance(n.ast.value, ast.Tuple) and len(n.ast.value.elts) == 2
                    and norm(n.ast.value.elts[1]).endswith('.exitstatus'), f, n.ast,
                    'run(withexitstatus) reports exactly child.exitstatus', witness=norm(n.ast), kind='ast', tag='run-field')
    c.need(nreads >= 1, 'run(): no read of exitstatus found')
    w = [t for t in g.nodes if t.kind == 'test' and norm(core(t)) == 'withexitstatus']
    tup = [r for r in returns(f) if isinstance(r.ast.value, ast.Tuple)]
    plain = [r for r in returns(f) if not isinstance(r.ast.value, ast.Tuple)]
    ok = len(w) == 1 and bool(tup) and bool(plain) and all(r in holds_region(g, w[0], True) for r in tup) and all(r in holds_region(g, w[0], False) for r in plain)
    c.check(ok, f, w[0].ast if w else None, 'the tuple form is returned iff withexitstatus', kind='path', tag='run-flag')


def eval_sign_guard(test, var, value):
    cp = compare_parts(test)
    if cp is None or not is_name(cp[0], var):
        return None
    k = const_value(cp[2], None)
    if k is None or isinstance(k, bool):
        return None
    ops = {ast.GtE: value >= k, ast.Gt: value > k, ast.Lt: value < k, ast.LtE: value <= k, ast.Eq: value == k, ast.NotEq: value != k}
    for o, v in ops.items():
        if isinstance(cp[1], o):
            return v
    return None


def check_popen_wait(c, f):
    """what wait() records for each kind of return code, found by evaluating the routine on concrete return codes (sa/minieval.py):
    whatever the shape of the tests -- an if/else, two conditional expressions, a helper written back into the routine"""
    from ..minieval import Evaluator
    g = f.cfg
    ws0 = cfg_nodes_with_call(f, lambda k: callee_last(k) == 'wait' and (ctext(k.func.value, f) or '').endswith('.proc'))
    c.need(len(ws0) == 1, 'PopenSpawn.wait: self.proc.wait() not found')
    wtext = norm(ws0[0][1].func)
    reads_rc = any(isinstance(x, ast.Attribute) and x.attr == 'returncode' for x in ast.walk(f.node))
    cases = [(code, want, None) for code, want in ((0, (0, None)), (1, (1, None)), (255, (255, None)), (-1, (None, 1)), (-15, (None, 15)))]
    if reads_rc:
        # the routine looks at Popen.returncode (a child that was already collected): both situations, for every kind of return code
        cases = cases + [(code, want, code) for code, want, _ in cases]
    for code, want, rc_ in cases:
        ev = Evaluator(env={'self.exitstatus': 'unset', 'self.signalstatus': 'unset', 'self.terminated': 'unset', 'self.proc': {'returncode': rc_}},
                       hooks={wtext: lambda args, e_, code=code: code, '.wait': lambda args, e_, code=code: code}, what='PopenSpawn.wait')
        kind, val = ev.call(f.node)
        got = (ev.env.get('self.exitstatus'), ev.env.get('self.signalstatus'))
        what = ('an exit code %d is recorded as exitstatus=%d, signalstatus=None' % (code, code)) if code >= 0 else \
            ('a return code %d (killed by signal %d) is recorded as exitstatus=None, signalstatus=%d' % (code, -code, -code))
        c.check(kind == 'return' and got == want and type(got[0]) is type(want[0]) and type(got[1]) is type(want[1]), f, ws0[0][1], what,
                witness='wait() %ss %r; exitstatus=%r signalstatus=%r' % (kind, val, got[0], got[1]), kind='alg', tag='popen-code:%d%s' % (code, '' if rc_ is None else ':collected'))
        c.check(ev.env.get('self.terminated') is True, f, ws0[0][1], 'terminated = True after wait() (return code %d)' % code,
                witness='terminated=%r' % (ev.env.get('self.terminated'),), kind='alg', tag='popen-terminated:%d%s' % (code, '' if rc_ is None else ':collected'))
        c.check(kind == 'return' and val == code, f, ws0[0][1], 'wait() returns the return code (%d)' % code, witness='%s %r' % (kind, val), kind='alg', tag='popen-returns:%d%s' % (code, '' if rc_ is None else ':collected'))


MUTANTS = [
    ('wait-no-terminated', 'pty_spawn', "        self.exitstatus = ptyproc.exitstatus\n        self.signalstatus = ptyproc.signalstatus\n        self.terminated = True\n\n        return exitstatus", "        self.exitstatus = ptyproc.exitstatus\n        self.signalstatus = ptyproc.signalstatus\n\n        return exitstatus", 'D1'),
    ('isalive-cross', 'pty_spawn', "            self.status = ptyproc.status\n            self.exitstatus = ptyproc.exitstatus\n            self.signalstatus = ptyproc.signalstatus\n            self.terminated = True\n\n        return alive", "            self.status = ptyproc.status\n            self.exitstatus = ptyproc.signalstatus\n            self.signalstatus = ptyproc.exitstatus\n            self.terminated = True\n\n        return alive", 'D1'),
    ('wait-drop-signal', 'pty_spawn', "        self.status = ptyproc.status\n        self.exitstatus = ptyproc.exitstatus\n        self.signalstatus = ptyproc.signalstatus\n        self.terminated = True\n\n        return exitstatus", "        self.status = ptyproc.status\n        self.exitstatus = ptyproc.exitstatus\n        self.terminated = True\n\n        return exitstatus", 'D1'),
    ('wait-fast-path', 'pty_spawn', "        ptyproc = self.ptyproc\n        with _wrap_ptyprocess_err():\n            # exception may occur", "        if self.terminated:\n            return self.status\n        ptyproc = self.ptyproc\n        with _wrap_ptyprocess_err():\n            # exception may occur", 'D2'),
    ('isalive-copy-when-alive', 'pty_spawn', "        if not alive:\n            self.status = ptyproc.status", "        if alive:\n            self.status = ptyproc.status", 'D1'),
    ('close-no-refresh', 'pty_spawn', "        self.isalive()  # Update exit status from ptyproc\n", "", 'D2'),
    ('run-exit-before-close', 'run', "        child.close()\n        return (child_result, child.exitstatus)", "        status = child.exitstatus\n        child.close()\n        return (child_result, child.exitstatus if status is None else status)", 'D2'),
    ('run-signalstatus', 'run', "        return (child_result, child.exitstatus)", "        return (child_result, child.exitstatus or child.signalstatus)", 'D2'),
    ('eof-no-refresh', 'pty_spawn', "            except EOF:\n                # Maybe the child is dead: update some attributes in that case\n                self.isalive()\n                raise", "            except EOF:\n                raise", 'D2'),
    ('popen-zero-signal', 'popen_spawn', "        if status >= 0:", "        if status > 0:", 'D3'),
    ('popen-sign-kept', 'popen_spawn', "            self.signalstatus = -status", "            self.signalstatus = status", 'D3'),
    ('terminate-waits', 'pty_spawn', "                self.kill(signal.SIGKILL)\n                time.sleep(self.delayafterterminate)\n                if not self.isalive():\n                    return True\n                else:\n                    return False", "                self.kill(signal.SIGKILL)\n                self.ptyproc.wait()\n                return True", 'D4'),
    ('kill-resets', 'pty_spawn', "        if self.isalive():\n            os.kill(self.pid, sig)", "        if self.isalive():\n            os.kill(self.pid, sig)\n            self.exitstatus = None", 'D5'),
]
PRESERVING = [
    ('popen-lt-flip', 'popen_spawn', "        if status >= 0:\n            self.exitstatus = status\n            self.signalstatus = None\n        else:\n            self.exitstatus = None\n            self.signalstatus = -status",
     "        if status < 0:\n            self.exitstatus = None\n            self.signalstatus = -status\n        else:\n            self.exitstatus = status\n            self.signalstatus = None"),
]

"""C04 EOF/TIMEOUT outcomes."""
import ast

from ..astx import (calls_in, dotted, norm, src, iter_nodes, aliases_of, assigned_targets,
                    assigned_names, const_value, is_const, parent_chain)
from ..lib import (call_arg, relation, truth, other, cmp_views, core, holds_region, conditions, found_test, found_tests, path_tests, entails_empty, paths_entail_empty, eval_conditions, relation_tests, atom_key, expand_condition, mode_mismatch_conditions, cfg_nodes_with_call, node_calls, returns, raises, raised_class, stmt_assigns_attr,
                   callee_last, guard_region, find_test_nodes, compare_parts, is_name, is_self_attr)
from ..lib import *      # noqa: F401,F403  (path-condition helpers)
from ..linear import ctext
from ..loader import AnalysisError
from .. import stores
from ..initattrs import definite_attrs, class_level_names
from ..nullness import unbound_uses

EXPLANATION = (
    "Static analysis of the outcome routing: (D1) in the blocking loop the read and both searches sit in one try "
    "whose EOF handler returns eof(), whose TIMEOUT handler returns timeout(), no broader handler precedes them and "
    "every other handler records errored() and re-raises with a bare raise; (D2) eof()/timeout() take before from "
    "the untrimmed store, set after to their own class, use their own index field, return it when >= 0 and "
    "otherwise raise their own exception class, eof() clears both stores; (D3) every path to the first read / "
    "timeout check / transport hookup passes through existing_data() and the test of its result, in the blocking "
    "and the asyncio entry; (D4) every attribute read while building the exception text (spawn.__str__, searcher "
    "__str__, including through property getters) is assigned on every constructor path of every concrete class "
    "using it or guarded by hasattr, %-formatting of possibly-tuple attributes is tuple-wrapped; (D5) no possibly "
    "unbound local in the expect machinery (guard-correlated definite assignment); (D6) flag_eof is set before "
    "every raise EOF of the transports; (D7) the entry points hand the loop's outcome back unchanged and build the searcher in the call from the call's own pattern list (EOF/TIMEOUT are looked up at their positions in the list that was passed); (D8) each transport translates the library's 'nothing arrived in time' signals (socket.timeout and, for timeout 0, BlockingIOError) into TIMEOUT. NOT decided: "
    "that a later call after EOF does not block (OS), message wording.")
TRUSTED = ["Python exception-handler matching order", "sa/ engine (CFG with exception edges, must-dataflow)"]
ASSUMPTIONS = ["EOF and TIMEOUT are unrelated sibling classes (checked: both derive directly from ExceptionPexpect)"]
LEVEL_TEXT = ("Static analysis of named structural clauses of the EOF/TIMEOUT outcome table: handler routing and "
              "re-raise discipline, bodies of eof()/timeout(), existing-data-first ordering (dominators), definite "
              "initialisation of everything the diagnostic text reads on all constructor paths, flag_eof before raise "
              "EOF, outcome forwarded by the entry points. Exhaustive over the CFG paths of the functions involved.")
LEVEL_NOTE = ("Trusted: handler matching semantics; analyser. Not decided: OS behaviour after EOF, timing.")
TECHNIQUE = "CFG dominators / exception-edge routing / must-assigned dataflow (static analysis)"


def handler_names(h):
    if h.type is None:
        return ['<bare>']
    elts = h.type.elts if isinstance(h.type, ast.Tuple) else [h.type]
    return [(dotted(e) or norm(e)).split('.')[-1] for e in elts]


def run(R):
    repo = R.repo
    with R.clause('D1', 'EXC', floor=4, desc='expect loop: EOF -> eof(), TIMEOUT -> timeout(), everything else errored()+re-raise') as c:
        check_routing(c, repo)
    with R.clause('D2', 'OUTCOME', floor=14, desc='eof()/timeout(): own index, own class, before from the untrimmed store') as c:
        check_outcomes(c, repo)
    with R.clause('D3', 'ORDER', floor=4, desc='pending data is searched before the first read / timeout check') as c:
        check_existing_first(c, repo)
    with R.clause('D4', 'ATTRINIT', floor=25, desc='building the exception text cannot fail: attributes initialised on every constructor path') as c:
        check_str_attrs(c, repo)
    with R.clause('D5', 'DEFASSIGN', floor=10, desc='no possibly-unbound local in the expect machinery') as c:
        for q in ['expect:Expecter.expect_loop', 'expect:Expecter.do_search', 'expect:Expecter.existing_data',
                  'expect:Expecter.new_data', 'expect:Expecter.eof', 'expect:Expecter.timeout',
                  'expect:searcher_string.search', 'expect:searcher_re.search',
                  'spawnbase:SpawnBase.expect_list', 'spawnbase:SpawnBase.expect_exact', 'spawnbase:SpawnBase.expect',
                  'spawnbase:SpawnBase.compile_pattern_list', 'spawnbase:SpawnBase.read', 'spawnbase:SpawnBase.readline',
                  '_async_w_await:expect_async']:
            f = repo.func(q)
            bad = unbound_uses(f)
            if bad:
                for name, node, path in bad:
                    c.bad(f, node, 'local `%s` may be unbound here' % name, witness='path: ' + path, tag='unbound-' + name)
            else:
                c.ok(f, None, 'every local is assigned on every feasible path before use', tag='defassign')
    with R.clause('D6', 'PAIR', floor=6, desc='flag_eof is set before EOF is raised by a transport') as c:
        for f in repo.implementations('SpawnBase', 'read_nonblocking'):
            g = f.cfg
            sets = set(n for n in g.nodes if n.kind == 'stmt' and stmt_assigns_attr(n.ast, 'flag_eof') is not None
                       and is_const(n.ast.value, True))
            for r in raises(f):
                if raised_class(r.ast, f) == 'EOF':
                    ok, p = g.dominated_by(r, sets, skip_labels=())
                    c.check(ok, f, r.ast, 'self.flag_eof = True on every path before this raise EOF',
                            witness='path: ' + g.describe_path(p) if p else None)
    with R.clause('D9', 'PROP', floor=2, desc='spawn.flag_eof is stored in / read from the ptyprocess object') as c:
        gt = repo.func('pty_spawn:spawn.flag_eof')
        rr = returns(gt)
        c.check(len(rr) == 1 and norm(rr[0].ast.value) == 'self.ptyproc.flag_eof', gt, rr[0].ast if rr else None, 'getter returns ptyproc.flag_eof', kind='ast', tag='flag-get')
        stt = repo.func('pty_spawn:spawn.flag_eof.setter')
        asg = [n for n in iter_nodes(stt.node) if isinstance(n, ast.Assign) and norm(n.targets[0]) == 'self.ptyproc.flag_eof' and is_name(n.value, stt.params[1])]
        c.check(len(asg) == 1, stt, asg[0] if asg else stt.node, 'setter stores the value in ptyproc.flag_eof (the liveness check and later reads depend on it)', kind='ast', tag='flag-set')
    with R.clause('D8', 'TAB', floor=3, desc='no-data outcomes of every transport surface as TIMEOUT, never as another error') as c:
        from .c05 import check_nodata
        check_nodata(c, repo)
    with R.clause('D7', 'FORWARD', floor=5, desc='entry points return / raise exactly what the loop produced') as c:
        check_forwarding(c, repo)


def match_returned_at_once(c, f, dn, v, calls, what, tag):
    """*dn* assigns the outcome of a search to the local *v*.  Assuming v is not None (a match; 0 is a match), no feasible path from
    there reaches a call named in *calls* or leaves the function other than by `return v`; assuming v is None, no path returns it.
    Feasibility is decided by the tests on v passed on the way -- so `if idx is not None: return idx`, `while idx is None:` ... `return idx`
    and `if idx is None: continue` are all the same to this rule, and `if idx:` (index 0 taken for "no match") is not."""
    g = f.cfg
    live = g.live_nodes()
    rets = [n for n in g.nodes if n in live and n.kind == 'stmt' and isinstance(n.ast, ast.Return) and is_name(n.ast.value, v)]
    bad = set(n for n in g.nodes if n in live and n is not dn and n.ast is not None and any(callee_last(k) in calls for k in node_calls(n)))
    redefs = set(n for n in g.nodes if n in live and n is not dn and n.kind == 'stmt' and v in assigned_names(n.ast))
    others = set(n for n in g.nodes if n in live and n.kind == 'stmt' and isinstance(n.ast, (ast.Return, ast.Raise)) and n not in rets)
    goal = (bad | others | redefs | {g.exit}) - set(rets)
    p = g.path(dn, goal, avoid=set(rets) | {dn}, skip_labels=('exc',), include_start=False, assume=[('%s is None' % v, False, {v})])
    c.check(bool(rets) and p is None, f, dn.ast, what,
            witness=('with %s holding a match, control can go: ' % v + g.describe_path(p)) if p else ('no `return %s`' % v if not rets else None), kind='path', tag=tag)
    p2 = g.path(dn, set(rets), avoid=redefs | {dn}, skip_labels=('exc',), include_start=False, assume=[('%s is None' % v, True, {v})]) if rets else None
    c.check(p2 is None, f, dn.ast, 'the "no match" value None is never returned as an index', witness=g.describe_path(p2) if p2 else None, kind='path', tag=tag + ':none')


def check_routing(c, repo):
    f = repo.func('expect:Expecter.expect_loop')
    tries = [n for n in iter_nodes(f.node) if isinstance(n, ast.Try)]
    c.need(len(tries) == 1, 'Expecter.expect_loop: expected one try statement, found %d' % len(tries))
    t = tries[0]
    inner = set()
    for st in t.body:
        for k in calls_in(st):
            inner.add(callee_last(k))
    for name in ('existing_data', 'read_nonblocking', 'new_data'):
        c.check(name in inner, f, t, '%s() is called inside the try that routes EOF/TIMEOUT' % name, kind='ast', tag='in-try-' + name)
    seen_broad = False
    got = {}
    for h in t.handlers:
        names = handler_names(h)
        broad = any(n in ('<bare>', 'Exception', 'BaseException', 'ExceptionPexpect') for n in names)
        for marker, meth in (('EOF', 'eof'), ('TIMEOUT', 'timeout')):
            if marker in names:
                c.check(not seen_broad and names == [marker], f, h,
                        'the %s handler is not shadowed by an earlier broader handler and catches only %s' % (marker, marker),
                        witness='handler %s' % names, kind='ast', tag='handler-order-' + marker)
                body = h.body
                ok = len(body) == 1 and isinstance(body[0], ast.Return) and isinstance(body[0].value, ast.Call) \
                    and ctext(body[0].value.func, f) == 'self.' + meth
                if ok and body[0].value.args:
                    ok = h.name is not None and is_name(body[0].value.args[0], h.name)
                c.check(ok, f, h, 'except %s: return self.%s(<the exception>)' % (marker, meth),
                        witness=' ; '.join(norm(s) for s in body), kind='ast', tag='route-' + marker)
                got[marker] = True
        if broad and not any(m in names for m in ('EOF', 'TIMEOUT')):
            calls = [callee_last(k) for s in h.body for k in calls_in(s)]
            last = h.body[-1] if h.body else None
            ok = 'errored' in calls and isinstance(last, ast.Raise) and last.exc is None \
                and not any(isinstance(x, ast.Return) for s in h.body for x in ast.walk(s))
            c.check(ok, f, h, 'any other exception: errored() is recorded and the SAME exception re-raised (bare raise)',
                    witness=' ; '.join(norm(s) for s in h.body), kind='ast', tag='route-other')
        if broad:
            seen_broad = True
    c.need(got.get('EOF') and got.get('TIMEOUT'), 'expect_loop has no dedicated EOF / TIMEOUT handlers')
    # errored(): before = all pending text, after / match / match_index = None
    er = repo.func('expect:Expecter.errored')
    ge = er.cfg
    bs = [n for n in ge.nodes if n.kind == 'stmt' and stmt_assigns_attr(n.ast, 'before') is not None]
    c.check(len(bs) == 1 and ctext(bs[0].ast.value, er) == 'self.spawn._before.getvalue()' and ge.dominated_by(ge.exit, {bs[0]})[0], er, bs[0].ast if bs else None,
            'errored(): before = all data received up to the exception', kind='ast', tag='errored-before')
    for attr in ('after', 'match', 'match_index'):
        xs = [n for n in ge.nodes if n.kind == 'stmt' and stmt_assigns_attr(n.ast, attr) is not None]
        c.check(len(xs) == 1 and is_const(xs[0].ast.value, None) and ge.dominated_by(ge.exit, {xs[0]})[0], er, xs[0].ast if xs else None,
                'errored(): %s = None' % attr, kind='ast', tag='errored-' + attr)
    # the loop: a match reported by new_data() is returned at once, "no match" keeps reading
    nd = cfg_nodes_with_call(f, lambda k: callee_last(k) == 'new_data')
    c.need(len(nd) == 1 and isinstance(nd[0][0].ast, ast.Assign), 'expect_loop: idx = self.new_data(...) not found')
    nv = nd[0][0].ast.targets[0].id
    match_returned_at_once(c, f, nd[0][0], nv, ('read_nonblocking', 'new_data', 'existing_data', 'timeout', 'sleep'),
                           'a match found in new data (index is not None, 0 included) is returned at once', 'newdata-returned')
    # class relation
    ex = repo.modules['exceptions']
    for n in ('EOF', 'TIMEOUT'):
        cl = repo.cls(n)
        c.check(cl.base_names == ['ExceptionPexpect'], f, cl.node, '%s derives directly from ExceptionPexpect (siblings: neither handler catches the other)' % n,
                witness=str(cl.base_names), kind='ast', tag='sibling-' + n)
    # timeout expiry inside the loop returns self.timeout()
    g = f.cfg
    tm = cfg_nodes_with_call(f, lambda k: ctext(k.func, f) == 'self.timeout')
    c.need(tm, 'no self.timeout() call in the loop')
    for n, k in tm:
        c.check(isinstance(n.ast, ast.Return), f, k, 'the result of timeout() is returned', kind='ast', tag='timeout-returned')


def index_listed_label(test, iv):
    """'no' when the test is not a comparison of the index variable with a constant; otherwise the outcome ('true'/'false') of
    the written test on which the marker is LISTED (index -1 excluded, 0 and above included), None when the test draws the line
    elsewhere.  Decided by evaluating the comparison at -1, 0 and 1, so the spelling (>= 0, > -1, != -1, not ... < 0) is immaterial"""
    cr, lab = truth(test)
    cp = compare_parts(cr)
    if not cp or type(cp[1]) not in (ast.GtE, ast.Gt, ast.NotEq, ast.Lt, ast.LtE, ast.Eq):
        return 'no'
    l, op, r = cp
    is_iv = iv if callable(iv) else (lambda e: is_name(e, iv))
    if is_iv(l) and isinstance(const_value(r, None), int):
        k, flip = const_value(r, None), False
    elif is_iv(r) and isinstance(const_value(l, None), int):
        k, flip = const_value(l, None), True
    else:
        return 'no'
    import operator
    fn = {ast.GtE: operator.ge, ast.Gt: operator.gt, ast.NotEq: operator.ne, ast.Lt: operator.lt, ast.LtE: operator.le, ast.Eq: operator.eq}[type(op)]
    vals = [(fn(k, v) if flip else fn(v, k)) for v in (-1, 0, 1)]
    if vals == [False, True, True]:
        return lab
    if vals == [True, False, False]:
        return other(lab)
    return None


def check_outcomes(c, repo):
    for meth, cls, idxattr, other_cls, other_idx in (('eof', 'EOF', 'eof_index', 'TIMEOUT', 'timeout_index'),
                                                    ('timeout', 'TIMEOUT', 'timeout_index', 'EOF', 'eof_index')):
        f = repo.func('expect:Expecter.' + meth)
        g = f.cfg
        # before from the untrimmed store, unsliced
        bs = [n for n in g.nodes if n.kind == 'stmt' and stmt_assigns_attr(n.ast, 'before') is not None]
        ok = len(bs) == 1 and ctext(bs[0].ast.value, f) == 'self.spawn._before.getvalue()'
        c.check(ok, f, bs[0].ast if bs else None, 'before = ALL pending text (the untrimmed store, unsliced)',
                witness=norm(bs[0].ast) if bs else 'missing', kind='ast', tag='before-all')
        if bs:
            rb = [n for n in g.nodes if n.kind == 'stmt' and stmt_assigns_attr(n.ast, '_before') is not None]
            for r in rb:
                okr = g.path(r, bs[0], skip_labels=('exc',)) is None
                c.check(okr, f, r.ast, 'before is taken before the store is cleared', tag='before-then-clear')
            okd = all(g.dominated_by(x, {bs[0]})[0] for x in [g.exit] + raises(f) if x.pred)
            c.check(okd, f, bs[0].ast, 'before is set on every path (return and raise)', tag='before-always')
        as_ = [n for n in g.nodes if n.kind == 'stmt' and stmt_assigns_attr(n.ast, 'after') is not None]
        ok = len(as_) == 1 and is_name(as_[0].ast.value, cls) and g.dominated_by(g.exit, {as_[0]})[0]
        c.check(ok, f, as_[0].ast if as_ else None, 'after = the %s class' % cls, witness=norm(as_[0].ast) if as_ else 'missing', kind='ast', tag='after-class')
        # index
        ia = [n for n in g.nodes if n.kind == 'stmt' and isinstance(n.ast, ast.Assign) and isinstance(n.ast.targets[0], ast.Name)
              and isinstance(n.ast.value, ast.Attribute) and n.ast.value.attr in (idxattr, other_idx)]
        if len(ia) == 1:
            ivn = ia[0].ast.targets[0].id
            c.check(ia[0].ast.value.attr == idxattr and ctext(ia[0].ast.value.value, f) == 'self.searcher', f, ia[0].ast,
                    '%s() consults %s of its own searcher (not the other marker\'s field)' % (meth, idxattr),
                    witness=norm(ia[0].ast), kind='ast', tag='own-index')

            def iv(e, ivn=ivn):
                return is_name(e, ivn)
        else:
            # the field is read in place (the canonical form of a local that merely holds it)
            reads = [n for n in iter_nodes(f.node) if isinstance(n, ast.Attribute) and isinstance(n.ctx, ast.Load) and n.attr in (idxattr, other_idx)]
            c.need(len(ia) == 0 and reads, '%s(): index = self.searcher.<index field> not found' % meth)
            c.check(all(n.attr == idxattr and ctext(n.value, f) == 'self.searcher' for n in reads), f, reads[0],
                    '%s() consults %s of its own searcher (not the other marker\'s field)' % (meth, idxattr),
                    witness=', '.join(sorted(set(norm(n) for n in reads))), kind='ast', tag='own-index')

            def iv(e, idxattr=idxattr, f=f):
                return isinstance(e, ast.Attribute) and e.attr == idxattr and ctext(e.value, f) == 'self.searcher'
        tests = find_test_nodes(f, lambda t: index_listed_label(t, iv) != 'no')
        c.need(len(tests) == 1, '%s(): test on the index not found' % meth)
        listed_edge = index_listed_label(tests[0].ast, iv)
        c.check(listed_edge is not None, f, tests[0].ast, 'the marker counts as listed exactly when its index >= 0 (index 0 included)',
                witness=norm(tests[0].ast), kind='alg', tag='listed-test')
        if listed_edge is None:
            continue
        lr = guard_region(g, tests[0], listed_edge)
        ur = guard_region(g, tests[0], 'false' if listed_edge == 'true' else 'true')
        rets = [n for n in lr if n.kind == 'stmt' and isinstance(n.ast, ast.Return)]
        c.check(len(rets) == 1 and rets[0].ast.value is not None and iv(rets[0].ast.value) and not [n for n in lr if n.kind == 'stmt' and isinstance(n.ast, ast.Raise)],
                f, rets[0].ast if rets else tests[0].ast, 'listed: returns that index, raises nothing', kind='path', tag='listed-returns')
        mi = [n for n in lr if n.kind == 'stmt' and stmt_assigns_attr(n.ast, 'match_index') is not None]
        c.check(len(mi) == 1 and iv(mi[0].ast.value), f, mi[0].ast if mi else tests[0].ast,
                'listed: match_index = that index', kind='ast', tag='listed-match-index')
        mm = [n for n in lr if n.kind == 'stmt' and stmt_assigns_attr(n.ast, 'match') is not None]
        c.check(len(mm) == 1 and is_name(mm[0].ast.value, cls), f, mm[0].ast if mm else tests[0].ast,
                'listed: match = the %s class' % cls, kind='ast', tag='listed-match')
        rs = [n for n in ur if n.kind == 'stmt' and isinstance(n.ast, ast.Raise)]
        ok = len(rs) >= 1 and all(raised_class(r.ast, f) == cls for r in rs) and \
            not [n for n in ur if n.kind == 'stmt' and isinstance(n.ast, ast.Return)]
        # every path of the unlisted branch ends in that raise
        if ok:
            starts = [s for s, l in tests[0].succ if l != listed_edge]
            okp, p = g.must_pass(tests[0], {g.exit}, set(rs) | set(n for n in lr), skip_labels=('exc',))
            ok = okp
        c.check(ok, f, rs[0].ast if rs else tests[0].ast, 'not listed: raises exactly the %s class on every path (never returns)' % cls,
                witness='raises %s' % [raised_class(r.ast, f) for r in rs], kind='path', tag='unlisted-raises')
        for attr in ('match', 'match_index'):
            xs = [n for n in ur if n.kind == 'stmt' and stmt_assigns_attr(n.ast, attr) is not None]
            c.check(len(xs) == 1 and is_const(xs[0].ast.value, None), f, xs[0].ast if xs else tests[0].ast,
                    'not listed: %s = None' % attr, kind='ast', tag='unlisted-' + attr)
        # stores
        rb_b = [n for n in g.nodes if n.kind == 'stmt' and stmt_assigns_attr(n.ast, '_before') is not None and stores.is_fresh_store(n.ast.value)]
        rb_u = [n for n in g.nodes if n.kind == 'stmt' and stmt_assigns_attr(n.ast, '_buffer') is not None and stores.is_fresh_store(n.ast.value)]
        if meth == 'eof':
            ok = len(rb_b) == 1 and len(rb_u) == 1 and all(g.dominated_by(x, {rb_b[0]})[0] and g.dominated_by(x, {rb_u[0]})[0]
                                                          for x in [g.exit] + rs)
            c.check(ok, f, rb_b[0].ast if rb_b else None, 'eof() clears both stores on every path (return and raise)', tag='eof-clears')
        else:
            c.check(not rb_b and not rb_u, f, (rb_b + rb_u)[0].ast if (rb_b + rb_u) else None, 'timeout() leaves both stores alone', tag='timeout-keeps')


def check_existing_first(c, repo):
    for q, firsts in (('expect:Expecter.expect_loop', ('read_nonblocking', 'timeout')),
                      ('_async_w_await:expect_async', ('connect_read_pipe', 'resume_reading', 'wait_for', 'timeout'))):
        f = repo.func(q)
        g = f.cfg
        ex = cfg_nodes_with_call(f, lambda k: callee_last(k) == 'existing_data')
        c.need(len(ex) == 1 and isinstance(ex[0][0].ast, ast.Assign), '%s: idx = ...existing_data() not found' % q)
        en = ex[0][0]
        v = en.ast.targets[0].id
        match_returned_at_once(c, f, en, v, tuple(firsts) + ('read_nonblocking', 'new_data'),
                               'a match in the pending text (index is not None, 0 included) is returned immediately; only "no match" goes on to read', 'pending-wins')
        for n, k in cfg_nodes_with_call(f, lambda k: callee_last(k) in firsts):
            if n is en or any(isinstance(p, ast.ExceptHandler) for p in parent_chain(k)):
                continue     # handlers run only after something inside the try was attempted
            ok1, p1 = g.dominated_by(n, {en}, skip_labels=())
            c.check(ok1, f, k, '%s() is reached only after existing_data() (and, by the rule above, only when it found nothing)' % callee_last(k),
                    witness='path: ' + g.describe_path(p1) if p1 else None, tag='existing-first')


def check_str_attrs(c, repo):
    # spawn.__str__ for every concrete class that inherits it
    strf = repo.func('pty_spawn:spawn.__str__')
    users = [cl for cl in repo.subclasses('SpawnBase') if repo.resolve_method(cl, '__str__') is strf]
    c.need(users, 'no class uses spawn.__str__')
    reads = collect_self_reads(repo, strf, users[0])
    c.need(len(reads) >= 20, 'spawn.__str__: expected >= 20 attribute reads, found %d' % len(reads))
    for cl in users:
        init = repo.resolve_method(cl, '__init__')
        c.need(init is not None, '%s has no constructor' % cl.name)
        defs, cond = definite_attrs(repo, init, cl)
        level = class_level_names(repo, cl)
        for attr, node, guard, via in reads:
            if attr in defs or attr in level:
                c.ok(strf, node, '%s.%s is initialised on every constructor path of %s' % ('self', attr, cl.name),
                     tag='%s.%s' % (cl.name, attr), kind='flow')
            elif guard:
                c.ok(strf, node, 'self.%s read only under hasattr(self, %r)' % (attr, guard), tag='%s.%s' % (cl.name, attr), kind='flow')
            else:
                c.bad(strf, node, 'self.%s%s may be unset when the exception text is built for a %s object (%s)'
                      % (attr, ' (via %s)' % via if via else '', cl.name,
                         'assigned only on some constructor paths' if attr in cond else 'never assigned by the constructors'),
                      tag='%s.%s' % (cl.name, attr), kind='flow')
    # tuple wrapping of %-formatting
    for n in iter_nodes(strf.node):
        if isinstance(n, ast.BinOp) and isinstance(n.op, ast.Mod) and isinstance(n.left, ast.Constant) and isinstance(n.left.value, str):
            r = n.right
            risky = isinstance(r, ast.Attribute) and r.attr in ('args', 'after', 'match', 'before', 'buffer')
            c.check(not risky, strf, n, '%-formatting of a possibly-tuple attribute is tuple-wrapped', witness=norm(n), kind='ast', tag='fmt-' + norm(n)[:30])
    # before[-n:] guarded against None
    for n in iter_nodes(strf.node):
        if isinstance(n, ast.Subscript) and isinstance(n.value, ast.Attribute) and n.value.attr == 'before':
            p = n._parent
            ok = isinstance(p, ast.IfExp) and p.body is n and norm(p.test) == 'self.before'
            c.check(ok, strf, n, 'self.before (None before the first expect) is sliced only when truthy', witness=norm(p), kind='ast', tag='before-none')
    # searcher __str__
    for cn in ('searcher_string', 'searcher_re'):
        cl = repo.cls(cn)
        sf = cl.methods['__str__']
        defs, cond = definite_attrs(repo, cl.methods['__init__'], cl)
        for attr, node, guard, via in collect_self_reads(repo, sf, cl):
            c.check(attr in defs or attr in class_level_names(repo, cl), sf, node,
                    'self.%s is initialised on every constructor path' % attr, tag='%s.%s' % (cn, attr), kind='flow')
    # the message is built with str(spawn) and '%s' % searcher only
    for meth in ('eof', 'timeout'):
        f = repo.func('expect:Expecter.' + meth)
        for n in iter_nodes(f.node):
            if isinstance(n, ast.BinOp) and isinstance(n.op, ast.Mod) and isinstance(n.left, ast.Constant):
                ok = isinstance(n.right, (ast.Tuple, ast.Call)) or ctext(n.right, f) == 'self.searcher'
                c.check(ok, f, n, 'message formatting cannot fail on the operand type', witness=norm(n), kind='ast', tag='msg-fmt')


def collect_self_reads(repo, f, cl, depth=0):
    """(attr, node, hasattr-guard or None, via) for self.X reads in f, following
    property getters one level."""
    out = []
    seen = set()
    for n in iter_nodes(f.node):
        if isinstance(n, ast.Attribute) and is_name(n.value, 'self') and isinstance(n.ctx, ast.Load):
            attr = n.attr
            # hasattr guard: an enclosing `if hasattr(self, 'x')`
            guard = None
            for p in parent_chain(n):
                if isinstance(p, ast.If) and isinstance(p.test, ast.Call) and dotted(p.test.func) == 'hasattr' \
                        and len(p.test.args) == 2 and is_name(p.test.args[0], 'self') and isinstance(p.test.args[1], ast.Constant):
                    if any(n is d for s in p.body for d in ast.walk(s)):
                        guard = p.test.args[1].value
            m = repo.resolve_method(cl, attr)
            is_prop = m is not None and any('property' in src(d) for d in m.node.decorator_list)
            propget = None
            for k in repo.mro(cl):
                v = k.class_attrs.get(attr)
                if isinstance(v, ast.Call) and dotted(v.func) == 'property' and v.args and isinstance(v.args[0], ast.Name):
                    propget = repo.resolve_method(cl, v.args[0].id)
                    break
            if (is_prop or propget) and depth == 0:
                getter = m if is_prop else propget
                for a2, n2, g2, _ in collect_self_reads(repo, getter, cl, 1):
                    # reads through the getter inherit the guard when the guard names what the getter needs
                    out.append((a2, n, guard if guard == a2 else None, '%s -> %s' % (attr, getter.qual)))
                continue
            if m is not None and not is_prop:
                continue    # a method reference
            key = (attr, guard)
            if key in seen:
                continue
            seen.add(key)
            out.append((attr, n, guard if guard == attr else None, None))
    return out


def check_forwarding(c, repo):
    for q in ('spawnbase:SpawnBase.expect_list', 'spawnbase:SpawnBase.expect_exact', 'spawnbase:SpawnBase.expect_loop'):
        f = repo.func(q)
        ks = cfg_nodes_with_call(f, lambda k: callee_last(k) == 'expect_loop')
        c.need(len(ks) == 1, '%s: exp.expect_loop(...) not found' % q)
        n, k = ks[0]
        in_try = any(isinstance(p, ast.Try) for p in parent_chain(k))
        c.check(isinstance(n.ast, ast.Return) and n.ast.value is k and not in_try, f, k,
                'returns the loop\'s result directly, outside any try (exceptions propagate unchanged)', witness=norm(n.ast), kind='ast', tag='forward-loop')
    check_searcher_fresh(c, repo)
    f = repo.func('spawnbase:SpawnBase.expect')
    ks = cfg_nodes_with_call(f, lambda k: callee_last(k) == 'expect_list')
    c.need(len(ks) == 1, 'expect: expect_list call not found')
    n, k = ks[0]
    c.check(isinstance(n.ast, ast.Return) and n.ast.value is k and not any(isinstance(p, ast.Try) for p in parent_chain(k)), f, k,
            'expect() returns expect_list()\'s result directly', kind='ast', tag='forward-expect')
    for q in ('spawnbase:SpawnBase.expect_list', 'spawnbase:SpawnBase.expect_exact'):
        f = repo.func(q)
        ks = cfg_nodes_with_call(f, lambda k: callee_last(k) == 'expect_async')
        for n, k in ks:
            c.check(isinstance(n.ast, ast.Return) and n.ast.value is k, f, k, 'the coroutine is handed back unchanged', kind='ast', tag='forward-async')


def check_searcher_fresh(c, repo):
    """the EOF/TIMEOUT positions the outcome is reported with are those of THIS call's list: the searcher handed to the
    Expecter is constructed in the call, unconditionally, from the call's own pattern list (never kept from an earlier call)"""
    for q in ('spawnbase:SpawnBase.expect_list', 'spawnbase:SpawnBase.expect_exact', 'spawnbase:SpawnBase.expect_loop'):
        f = repo.func(q)
        g = f.cfg
        es = cfg_nodes_with_call(f, lambda k: callee_last(k) == 'Expecter')
        c.need(len(es) == 1, '%s: Expecter(...) construction not found' % q)
        n, k = es[0]
        a = call_arg(k, 'searcher', 1)
        c.need(a is not None, '%s: Expecter() without a searcher argument' % q)

        def fresh(e):
            if isinstance(e, ast.Call) and callee_last(e) in ('searcher_re', 'searcher_string') and e.args and isinstance(e.args[0], ast.Name):
                return e.args[0].id in f.params
            return False
        if isinstance(a, ast.Name) and a.id in f.params:
            ok, why = True, 'the caller\'s searcher object'
        elif fresh(a):
            ok, why = True, norm(a)
        elif isinstance(a, ast.Name):
            defs = [m for m in g.nodes if m.kind == 'stmt' and a.id in assigned_names(m.ast)]
            ok = len(defs) == 1 and isinstance(defs[0].ast, ast.Assign) and fresh(defs[0].ast.value) and g.dominated_by(n, {defs[0]})[0]
            why = norm(defs[0].ast) if defs else 'no definition'
        else:
            ok, why = False, norm(a)
        c.check(ok, f, k, 'the searcher given to the Expecter is built in this call from this call\'s pattern list (or is the caller\'s own object), '
                'so EOF / TIMEOUT are looked up at their positions in the list that was passed', witness=why, kind='flow', tag='searcher-fresh:' + f.name)


MUTANTS = [
    ('expect_list-cached-searcher', 'spawnbase', "        exp = Expecter(self, searcher_re(pattern_list), searchwindowsize)", "        if pattern_list is not getattr(self, '_sp', None):\n            self.searcher = searcher_re(pattern_list)\n            self._sp = pattern_list\n        exp = Expecter(self, self.searcher, searchwindowsize)", 'D7'),
    ('eof-to-timeout', 'expect', "        except EOF as e:\n            return self.eof(e)", "        except EOF as e:\n            return self.timeout(e)", 'D1'),
    ('bare-first', 'expect', "        except EOF as e:\n            return self.eof(e)\n        except TIMEOUT as e:\n            return self.timeout(e)\n        except:\n            self.errored()\n            raise",
     "        except TIMEOUT as e:\n            return self.timeout(e)\n        except Exception:\n            self.errored()\n            raise\n        except EOF as e:\n            return self.eof(e)", 'D1'),
    ('swallow-other', 'expect', "        except:\n            self.errored()\n            raise", "        except:\n            self.errored()\n            return None", 'D1'),
    ('eof-raises-timeout', 'expect', "            exc = EOF(msg)", "            exc = TIMEOUT(msg)", 'D2'),
    ('eof-uses-timeout-index', 'expect', "        index = self.searcher.eof_index", "        index = self.searcher.timeout_index", 'D2'),
    ('timeout-index-gt0', 'expect', "        index = self.searcher.timeout_index\n        if index >= 0:", "        index = self.searcher.timeout_index\n        if index > 0:", 'D2'),
    ('eof-before-from-buffer', 'expect', "        spawn.before = spawn._before.getvalue()\n        spawn._buffer = spawn.buffer_type()", "        spawn.before = spawn._buffer.getvalue()\n        spawn._buffer = spawn.buffer_type()", 'D2'),
    ('timeout-before-sliced', 'expect', "        spawn.before = spawn._before.getvalue()\n        spawn.after = TIMEOUT", "        spawn.before = spawn._before.getvalue()[-spawn.maxread:]\n        spawn.after = TIMEOUT", 'D2'),
    ('eof-after-none', 'expect', "        spawn.after = EOF\n", "        spawn.after = None\n", 'D2'),
    ('read-before-existing', 'expect', "            idx = self.existing_data()\n            if idx is not None:\n                return idx\n            while True:",
     "            if timeout is not None and timeout <= 0:\n                return self.timeout()\n            idx = self.existing_data()\n            if idx is not None:\n                return idx\n            while True:", 'D3'),
    ('str-unguarded-ptyproc', 'pty_spawn', "        if hasattr(self, 'ptyproc'):\n            s.append('flag_eof: ' + str(self.flag_eof))", "        s.append('flag_eof: ' + str(self.flag_eof))", 'D4'),
    ('str-new-attr', 'pty_spawn', "        s.append('pid: ' + str(self.pid))", "        s.append('pid: ' + str(self.pid))\n        s.append('ptyproc: ' + str(self.ptyproc))", 'D4'),
    ('init-args-only-when-command', 'pty_spawn', "            self.command = None\n            self.args = None\n", "            self.command = None\n", 'D4'),
    ('str-args-unwrapped', 'pty_spawn', "        s.append('args: %r' % (self.args,))", "        s.append('args: %r' % self.args)", 'D4'),
    ('slow-eof-no-flag', 'pty_spawn', "            self.flag_eof = True\n            raise EOF('End of File (EOF). Very slow platform.')", "            raise EOF('End of File (EOF). Very slow platform.')", 'D6'),
    ('expect_exact-swallow', 'spawnbase', "            from ._async import expect_async\n            return expect_async(exp, timeout)\n        else:\n            return exp.expect_loop(timeout)\n\n    def expect_loop",
     "            from ._async import expect_async\n            return expect_async(exp, timeout)\n        else:\n            try:\n                return exp.expect_loop(timeout)\n            except TIMEOUT:\n                return -1\n\n    def expect_loop", 'D7'),
    ('unbound-end-time', 'expect', "        if timeout is not None:\n            end_time = time.time() + timeout\n\n        try:", "        if timeout:\n            end_time = time.time() + timeout\n\n        try:", 'D5'),
    ('socket-blockingio-leaks', 'socket_pexpect', "        except (socket.timeout, BlockingIOError):", "        except socket.timeout:", 'D8'),
    ('existing-none-flipped', 'expect', "            idx = self.existing_data()\n            if idx is not None:\n                return idx\n            while True:", "            idx = self.existing_data()\n            if idx:\n                return idx\n            while True:", 'D3'),
    ('newdata-truthy', 'expect', "                # Keep reading until exception or return.\n                if idx is not None:\n                    return idx", "                # Keep reading until exception or return.\n                if idx:\n                    return idx", 'D1'),
    ('errored-keeps-after', 'expect', "        spawn.before = spawn._before.getvalue()\n        spawn.after = None\n        spawn.match = None", "        spawn.before = spawn._before.getvalue()\n        spawn.match = None", 'D1'),
    ('flag-eof-setter-noop', 'pty_spawn', "    def flag_eof(self, value):\n        self.ptyproc.flag_eof = value", "    def flag_eof(self, value):\n        self._flag_eof = value", 'D9'),
    ('eof-no-clear-on-raise', 'expect', "        spawn.before = spawn._before.getvalue()\n        spawn._buffer = spawn.buffer_type()\n        spawn._before = spawn.buffer_type()\n        spawn.after = EOF\n        index = self.searcher.eof_index\n        if index >= 0:\n",
     "        spawn.before = spawn._before.getvalue()\n        spawn.after = EOF\n        index = self.searcher.eof_index\n        if index >= 0:\n            spawn._buffer = spawn.buffer_type()\n            spawn._before = spawn.buffer_type()\n", 'D2'),
]
PRESERVING = [
    ('eof-index-ne', 'expect', "        index = self.searcher.eof_index\n        if index >= 0:", "        index = self.searcher.eof_index\n        if index != -1:"),
    ('handler-noname', 'expect', "        except TIMEOUT as e:\n            return self.timeout(e)", "        except TIMEOUT as exc:\n            return self.timeout(exc)"),
]

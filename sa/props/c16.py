"""C16 REPLWrapper."""
import ast
import re

from ..astx import (calls_in, dotted, norm, src, iter_nodes, assigned_targets, assigned_names,
                    const_value, is_const, parent_chain)
from ..lib import (call_arg, relation, truth, other, cmp_views, core, holds_region, conditions, found_test, found_tests, path_tests, entails_empty, paths_entail_empty, eval_conditions, relation_tests, atom_key, expand_condition, mode_mismatch_conditions, cfg_nodes_with_call, node_calls, returns, raises, raised_class, stmt_assigns_attr, callee_last,
                   is_name, node_roots, guard_region, compare_parts, find_test_nodes)
from ..lib import *      # noqa: F401,F403  (path-condition helpers)
from ..linear import ctext
from ..loader import AnalysisError
from ..consteval import const_str

EXPLANATION = (
    "Static analysis, deliberately narrow: (D1) in run_command and its awaited twin every command line is sent once, "
    "every send is followed by exactly one prompt wait, the `before` of EVERY wait is collected exactly once, in order, "
    "and the result is the join of all of them; (D2) the prompt wait lists [prompt, continuation prompt] in that order, "
    "so index 1 means 'incomplete input': SIGINT is sent, one resynchronising wait follows, ValueError is raised; (D3) "
    "the synchronous and the awaited form have the same event skeleton; (D4) for the sh-family wrappers the prompt "
    "ASSIGNMENT text sent to the shell does not contain the literal the wrapper waits for (the echoed command or `env` "
    "output cannot be mistaken for a prompt) while what the shell displays does (constant evaluation of the strings in "
    "the source); (D5) a trailing newline yields a final empty line, an empty command is rejected before anything is "
    "sent; the constructor installs the new prompt and synchronises once. NOT decided (most of the property): exact "
    "output attribution with real shells, usability after errors.")
TRUSTED = ["expect_exact index semantics (C02)", "bash \\[\\] and zsh %(!..) render as nothing", "sa/ engine"]
ASSUMPTIONS = []
LEVEL_TEXT = ("Static analysis of narrow structural clauses of REPLWrapper: send/wait/collect pairing by CFG path counting in both "
              "forms, index meaning of the prompt list, sync/async sibling skeleton, constant-evaluated prompt tables.")
LEVEL_NOTE = "Trusted: index semantics from C02, shell prompt escapes; analyser. Not decided: behaviour with real shells."
TECHNIQUE = "CFG path counting + sibling skeleton comparison + constant evaluation of prompt strings (static analysis)"


def run(R):
    repo = R.repo
    sync = repo.func('replwrap:REPLWrapper.run_command')
    asy = repo.func('_async_w_await:repl_run_command_async')
    with R.clause('D1', 'ONCE', floor=10, desc='one send and one prompt wait per line; every before collected once; result is their join') as c:
        check_collect(c, sync, 'self')
        check_collect(c, asy, 'repl')
    with R.clause('D2', 'IDX', floor=6, desc='index 1 = continuation prompt -> SIGINT, one resync wait, ValueError') as c:
        f = repo.func('replwrap:REPLWrapper._expect_prompt')
        ks = [k for k in calls_in(f.node) if callee_last(k) == 'expect_exact']
        c.need(len(ks) == 1, '_expect_prompt: expect_exact not found')
        k = ks[0]
        lst = k.args[0] if k.args else None
        ok = isinstance(lst, ast.List) and [norm(e) for e in lst.elts] == ['self.prompt', 'self.continuation_prompt']
        c.check(ok, f, k, 'the wait lists [prompt, continuation prompt] in that order', witness=norm(lst) if lst is not None else '', kind='ast', tag='list-order')
        kws = dict((nm, norm(call_arg(k, nm, pos))) for nm, pos in (('timeout', 1), ('async_', 3)) if call_arg(k, nm, pos) is not None)
        c.check(kws.get('timeout') == 'timeout' and kws.get('async_') == 'async_', f, k, 'timeout and async_ are forwarded', witness=str(kws), kind='ast', tag='forward')
        c.check(isinstance(k._parent, ast.Return), f, k, 'the index is returned', kind='ast', tag='returned')
        check_continuation(c, sync, 'self')
        check_continuation(c, asy, 'repl')
    with R.clause('D3', 'SIB', floor=1, desc='sync and awaited form have the same event skeleton') as c:
        a = skeleton(sync, after_async=True)
        b = skeleton(asy)
        from collections import Counter
        ca, cb = Counter(x for x in a if x != 'for'), Counter(x for x in b if x != 'for')
        # (a difference only in how many textual collect / join sites there are -- a fast path with its own return -- is not a difference in events)
        def assembly_free(sk):
            out = [x for i_, x in enumerate(sk) if not (x == 'append' and i_ + 1 < len(sk) and sk[i_ + 1] == 'join') and x not in ('join', 'for')]
            return Counter(out)
        only_assembly = assembly_free(a) == assembly_free(b)          # apart from `append` + `join` return sites the same events, equally often
        if a != b and (ca == cb or only_assembly or not known_loop_form(sync) or not known_loop_form(asy)):
            # the same kinds of events in another arrangement or number of textual occurrences (one of the two forms rewritten: a fast path, two
            # return statements): equivalence of the arrangements is beyond this rule; how OFTEN each event happens per path is D1's question
            raise AnalysisError('C16-D3: the two forms make the same calls in a different textual order; cannot compare them (sync %s / async %s)' % (a, b))
        c.check(a == b, asy, None, 'same sequence of sends / waits / collects / kill / raise in both forms',
                witness='sync %s vs async %s' % (a, b), kind='ast', tag='skeleton')
    with R.clause('D4', 'TAB', floor=6, desc='prompt assignment text does not contain the awaited literal; the displayed prompt does') as c:
        check_prompts(c, repo)
    with R.clause('D5', 'SETUP', floor=5, desc='command splitting and constructor synchronisation') as c:
        check_setup(c, repo, sync)


def waits(f):
    return cfg_nodes_with_call(f, lambda k: callee_last(k) == '_expect_prompt')


def known_loop_form(f):
    """first line before the loop, then `for <name> in <lines>[a:b]` or `for <name> in <lines>` (the latter is judged, and is wrong)"""
    loops = [n for n in iter_nodes(f.node) if isinstance(n, ast.For)]
    if len(loops) != 1 or not isinstance(loops[0].target, ast.Name):
        return False
    it = loops[0].iter
    return isinstance(it, ast.Name) or (isinstance(it, ast.Subscript) and isinstance(it.slice, ast.Slice) and isinstance(it.value, ast.Name))


def check_collect(c, f, recv):
    g = f.cfg
    loops = [n for n in iter_nodes(f.node) if isinstance(n, ast.For)]
    c.need(len(loops) == 1, '%s: expected one for loop' % f.qual)
    loop = loops[0]
    hdr = g.node_of_stmt(loop)
    # (a local that holds the slice / the first line is read as its expression when it cannot have gone stale: `first, rest = lines[0], lines[1:]`)
    from ..linear import aliases_of
    al_ = aliases_of(f)
    keep_ = set(nm for nm, v_ in dict(getattr(al_, 'single_assign', {})).items() if not isinstance(v_, (ast.Subscript, ast.Name)))
    it_txt = ctext(loop.iter, f, keep=keep_) or norm(loop.iter)
    m_ = re.match(r'^([A-Za-z_][A-Za-z_0-9]*)\[[^\]]*:[^\]]*\]$', it_txt)
    lines = m_.group(1) if m_ else 'cmdlines'
    rcands = [k.func.value.id for k in calls_in(loop) if callee_last(k) == 'append' and isinstance(k.func.value, ast.Name)]
    RES = rcands[0] if rcands else 'res'
    # the known way of writing it: first line before the loop, the loop over lines[1:].  Another slice is a violation; another way of
    # writing the loop altogether (enumerate with a first-line test, an index loop) is not something this rule can judge
    c.need(known_loop_form(f), '%s: the loop over the command lines is written in a form the rule does not know (%s)' % (f.qual, norm(loop.iter)))
    c.check(it_txt == '%s[1:]' % lines, f, loop, 'the loop covers every remaining line, in order',
            witness=it_txt, kind='ast', tag='loop-lines')
    lv = loop.target.id
    sends = cfg_nodes_with_call(f, lambda k: callee_last(k) == 'sendline')
    first = [(n, k) for n, k in sends if not any(p is loop for p in parent_chain(k))]
    ok = len(first) == 1 and first[0][1].args and (ctext(first[0][1].args[0], f, keep=keep_) or norm(first[0][1].args[0])) == '%s[0]' % lines and g.dominated_by(hdr, {first[0][0]})[0]
    c.check(ok, f, first[0][1] if first else None, 'the first line is sent once, before the loop', kind='ast', tag='first-line')
    inl = [(n, k) for n, k in sends if any(p is loop for p in parent_chain(k))]
    body = [s for s, l in hdr.succ if l == 'true']
    c.need(body, 'loop body not found')
    sn = set(n for n, k in inl)
    mn, mx = g.occurrences(lambda n: n in sn, start=body[0], goals={hdr}, skip_labels=('exc', 'raise'))
    ok = mn == 1 and mx == 1 and all(k.args and is_name(k.args[0], lv) for n, k in inl)
    c.check(ok, f, inl[0][1] if inl else loop, 'each remaining line is sent exactly once', witness='min=%s max=%s' % (mn, mx), tag='line-once')
    ws = waits(f)
    wl = set(n for n, k in ws if any(p is loop for p in parent_chain(k)))
    mn, mx = g.occurrences(lambda n: n in wl, start=body[0], goals={hdr}, skip_labels=('exc', 'raise'))
    c.check(mn == 1 and mx == 1, f, loop, 'each iteration waits for exactly one prompt', witness='min=%s max=%s' % (mn, mx), tag='wait-once')
    apps = cfg_nodes_with_call(f, lambda k: callee_last(k) == 'append' and is_name(k.func.value, RES))
    al = set(n for n, k in apps)
    mn, mx = g.occurrences(lambda n: n in al, start=body[0], goals={hdr}, skip_labels=('exc', 'raise'))
    okv = all(ctext(k.args[0], f, stale_ok=True) == '%s.child.before' % recv for n, k in apps)
    if mn == 0 and mx == 1 and okv and apps:
        # appended only when non-empty (`if child.before: pieces.append(child.before)`): an empty piece adds nothing to the joined text, but
        # that is an argument about values -- not decided here
        guards = [a_ for n_, k_ in apps for a_, v_ in conditions(g, n_) if 'before' in a_]
        c.need(not guards, '%s: a piece is collected under a test of its own value (%s): cannot be decided' % (f.qual, guards[0] if guards else ''))
    c.check(mn == 1 and mx == 1 and okv, f, apps[0][1] if apps else loop, 'the before of every wait is collected exactly once',
            witness='min=%s max=%s; values %s' % (mn, mx, [norm(k.args[0]) for n, k in apps]), tag='collect-once')
    # order inside the iteration: wait -> collect -> send
    if wl and al and sn:
        w0, a0, s0 = list(wl)[0], list(al)[0], list(sn)[0]
        ok = g.dominated_by(a0, {w0})[0] and g.dominated_by(s0, {a0})[0] and g.path(a0, w0, avoid={hdr}, skip_labels=('exc',), include_start=False) is None
        c.check(ok, f, loop, 'order in each iteration: wait for the prompt, collect its before, then send the next line', tag='order')
    # final wait + return
    after_w = [(n, k) for n, k in ws if not any(p is loop for p in parent_chain(k))]
    rets = [r for r in returns(f) if r.ast.value is not None and isinstance(r.ast.value, ast.Call) and callee_last(r.ast.value) == 'join']
    c.check(len(rets) == 1, f, rets[0].ast if rets else None, 'the result is a join', kind='ast', tag='join')
    if rets:
        a = rets[0].ast.value.args[0]
        ok = isinstance(a, ast.BinOp) and isinstance(a.op, ast.Add) and is_name(a.left, RES) and norm(a.right) == '[%s.child.before]' % recv
        c.check(ok, f, rets[0].ast, 'result = everything collected so far + the before of the final wait, in order', witness=norm(a), kind='ast', tag='join-all')
        sep = rets[0].ast.value.func.value
        c.check(isinstance(sep, ast.Constant) and sep.value == '', f, rets[0].ast, 'joined with the empty string (nothing inserted)', kind='ast', tag='join-sep')
        fw = [n for n, k in after_w if g.dominated_by(rets[0], {n})[0] and g.dominated_by(n, {hdr})[0]]
        c.check(bool(fw), f, rets[0].ast, 'a final prompt wait precedes the return', tag='final-wait')
    inits = [n for n in g.nodes if n.kind == 'stmt' and RES in assigned_names(n.ast)]
    c.check(len(inits) == 1 and norm(inits[0].ast.value) == '[]', f, inits[0].ast if inits else None, 'the collection starts empty, once', kind='ast', tag='init')


def check_continuation(c, f, recv):
    g = f.cfg
    isint = lambda e: isinstance(e, ast.Constant) and isinstance(e.value, int) and not isinstance(e.value, bool)
    tests = relation_tests(g, 'eq', lambda e: not isint(e), isint)
    c.need(len(tests) == 1, '%s: test on the prompt index not found' % f.qual)
    t, lab = tests[0]
    rel = relation(t.ast)
    idx_e, const_e = (rel[1], rel[2]) if isint(rel[2]) else (rel[2], rel[1])
    c.check(is_const(const_e, 1), f, t.ast,
            'the continuation prompt is recognised by index 1 (its position in the prompt list)', witness=norm(t.ast), kind='ast', tag='index-1')
    reg = guard_region(g, t, lab)
    kills = [n for n in reg if any(callee_last(k) == 'kill' and norm(k.args[0]) == 'signal.SIGINT' for k in node_calls(n))]
    rs = [n for n in reg if n.kind == 'stmt' and isinstance(n.ast, ast.Raise)]
    ws = [n for n in reg if any(callee_last(k) == '_expect_prompt' for k in node_calls(n))]
    ok = len(kills) == 1 and len(rs) == 1 and raised_class(rs[0].ast, f) == 'ValueError' and len(ws) == 1 \
        and g.dominated_by(ws[0], {kills[0]})[0] and g.dominated_by(rs[0], {ws[0]})[0]
    c.check(ok, f, t.ast, 'continuation prompt: SIGINT, exactly one resynchronising wait, then ValueError', witness='kills=%d waits=%d raises=%d' % (len(kills), len(ws), len(rs)), tag='continuation')
    # the tested value is the final wait's result
    l = idx_e
    ok = (isinstance(l, ast.Call) and callee_last(l) == '_expect_prompt') or (isinstance(l, ast.Name))
    if isinstance(l, ast.Name):
        defs = [n for n in g.nodes if n.kind == 'stmt' and l.id in assigned_names(n.ast)]
        ok = len(defs) == 1 and any(callee_last(k) == '_expect_prompt' for k in node_calls(defs[0]))
    c.check(ok, f, t.ast, 'the index tested is the one returned by the final prompt wait', kind='ast', tag='index-source')
    rets = [r for r in returns(f) if r.ast.value is not None and isinstance(r.ast.value, ast.Call) and callee_last(r.ast.value) == 'join']
    c.check(bool(rets) and rets[0] not in reg, f, t.ast, 'output is returned only for a complete command', tag='no-output-on-incomplete')


def skeleton(f, after_async=False):
    ev = []
    started = not after_async
    for n in iter_nodes(f.node):
        if after_async and isinstance(n, ast.If) and norm(n.test) == 'async_':
            started = True
            ev = []
            continue
        if isinstance(n, ast.Call):
            last = callee_last(n)
            if last == '_expect_prompt':
                ta = call_arg(n, 'timeout', 0)
                ev.append('_expect_prompt(%s)' % (norm(ta) if ta is not None else 'default'))          # which timeout the wait is given is part of the event
            elif last in ('sendline', 'append', 'kill', 'join'):
                ev.append(last)
        elif isinstance(n, ast.Raise):
            ev.append('raise')
        elif isinstance(n, ast.For):
            ev.append('for')
    if after_async:
        # drop what belongs to the async dispatch itself
        ev = [e for e in ev]
        # the sync function's events before `if async_` were discarded above; the dispatch call is not in the list
    return ev


def check_prompts(c, repo):
    m = repo.modules['replwrap']
    consts = {}
    for st in m.tree.body:
        if isinstance(st, ast.Assign) and len(st.targets) == 1 and isinstance(st.targets[0], ast.Name):
            v = const_str(st.value, consts)
            if v is not None:
                consts[st.targets[0].id] = v
    c.need('PEXPECT_PROMPT' in consts and 'PEXPECT_CONTINUATION_PROMPT' in consts, 'prompt constants not found')
    P, Q = consts['PEXPECT_PROMPT'], consts['PEXPECT_CONTINUATION_PROMPT']
    c.check(P != Q and P not in Q and Q not in P, m and repo.func('replwrap:_repl_sh'), None,
            'prompt and continuation prompt are distinct and neither contains the other (exact search cannot confuse them)',
            witness='%r / %r' % (P, Q), kind='alg', tag='distinct')
    f = repo.func('replwrap:_repl_sh')
    inserts = {}
    for q in ('replwrap:bash', 'replwrap:zsh'):
        g = repo.func(q)
        ks = [k for k in calls_in(g.node) if callee_last(k) == '_repl_sh']
        c.need(len(ks) == 1, '%s: _repl_sh call not found' % q)
        kw = [kw for kw in ks[0].keywords if kw.arg == 'non_printable_insert']
        v = const_str(kw[0].value, consts) if kw else (const_str(ks[0].args[2], consts) if len(ks[0].args) > 2 else None)
        c.need(v is not None, '%s: non_printable_insert is not a constant' % q)
        inserts[q] = v
    # evaluate ps1/ps2/prompt_change for each insert
    for q, ins in inserts.items():
        env = dict(consts)
        env['non_printable_insert'] = ins
        for st in f.node.body:
            if isinstance(st, ast.Assign) and isinstance(st.targets[0], ast.Name):
                v = const_str(st.value, env)
                if v is not None:
                    env[st.targets[0].id] = v
        # the prompt-change command is the third argument of REPLWrapper(...); ps1 / ps2 are the two values formatted into it
        rk = [k for k in calls_in(f.node) if callee_last(k) == 'REPLWrapper']
        c.need(len(rk) == 1 and len(rk[0].args) >= 3 and isinstance(rk[0].args[2], ast.Name), '_repl_sh: REPLWrapper(child, prompt, <prompt change>) not found')
        pcv = rk[0].args[2].id
        pcd = [st for st in f.node.body if isinstance(st, ast.Assign) and pcv in assigned_names(st)]
        c.need(len(pcd) == 1 and isinstance(pcd[0].value, ast.Call) and callee_last(pcd[0].value) == 'format' and len(pcd[0].value.args) == 2
               and all(isinstance(a, ast.Name) for a in pcd[0].value.args), '_repl_sh: prompt change is not <template>.format(ps1, ps2)')
        v1, v2 = [a.id for a in pcd[0].value.args]
        c.need(v1 in env and v2 in env and pcv in env, '_repl_sh: ps1/ps2/prompt_change not constant-evaluable')
        for name, lit, var in (('prompt', P, v1), ('continuation prompt', Q, v2)):
            sent = env[var]
            c.check(len(ins) > 0 and lit not in sent and lit not in env[pcv], f, None,
                    '%s: the %s assignment text does not contain the awaited literal %r' % (q.split(':')[1], name, lit),
                    witness='sent %r' % sent, kind='alg', tag='hidden:%s:%s' % (q, var))
            c.check(sent.replace(ins, '') == lit, f, None, '%s: the shell displays exactly %r (the insert renders as nothing)' % (q.split(':')[1], lit),
                    witness='displayed %r' % sent.replace(ins, ''), kind='alg', tag='shown:%s:%s' % (q, var))
    # the wrapper waits for the plain literals
    ks = [k for k in calls_in(f.node) if callee_last(k) == 'REPLWrapper']
    c.need(len(ks) == 1, '_repl_sh: REPLWrapper(...) not found')
    k = ks[0]
    c.check(len(k.args) >= 3 and isinstance(k.args[2], ast.Name) and not any(kw.arg in ('new_prompt', 'continuation_prompt') for kw in k.keywords),
            f, k, 'the wrapper waits for the default (plain) prompt literals', witness=norm(k), kind='ast', tag='waits-plain')


def check_setup(c, repo, sync):
    g = sync.cfg
    sp = [n for n in g.nodes if n.kind == 'stmt' and isinstance(n.ast, ast.Assign) and norm(n.ast.value) == 'command.splitlines()']
    c.check(len(sp) == 1, sync, sp[0].ast if sp else None, 'the command is split into lines', kind='ast', tag='splitlines')
    CL = sp[0].ast.targets[0].id if sp and isinstance(sp[0].ast.targets[0], ast.Name) else 'cmdlines'
    t = [x for x in g.nodes if x.kind == 'test' and norm(x.ast) == "command.endswith('\\n')"]
    ap = [n for x in t for n in guard_region(g, x, 'true') if any(callee_last(k) == 'append' and is_const(k.args[0], '') for k in node_calls(n))]
    c.check(len(t) == 1 and len(ap) == 1, sync, t[0].ast if t else None, 'a trailing newline gives a final empty line (so a block is terminated)', kind='path', tag='trailing-newline')
    e = [x for x in g.nodes if x.kind == 'test' and norm(x.ast) == 'not %s' % CL]
    rs = [n for x in e for n in guard_region(g, x, 'true') if n.kind == 'stmt' and isinstance(n.ast, ast.Raise) and raised_class(n.ast, sync) == 'ValueError']
    sends = [n for n, k in cfg_nodes_with_call(sync, lambda k: callee_last(k) == 'sendline')]
    ok = len(e) == 1 and len(rs) == 1 and all(g.dominated_by(s, {e[0]})[0] for s in sends)
    c.check(ok, sync, e[0].ast if e else None, 'an empty command is rejected before anything is sent', kind='path', tag='empty-command')
    init = repo.func('replwrap:REPLWrapper.__init__')
    gi = init.cfg
    PC = 'prompt_change is None'
    pa = [n for n in gi.nodes if n.kind == 'stmt' and stmt_assigns_attr(n.ast, 'prompt') is not None]
    p1 = [n for n in pa if (PC, True) in conditions(gi, n)]
    p2 = [n for n in pa if (PC, False) in conditions(gi, n)]
    ok = len(pa) == 2 and len(p1) == 1 and is_name(p1[0].ast.value, 'orig_prompt') and len(p2) == 1 and is_name(p2[0].ast.value, 'new_prompt')
    c.check(ok, init, pa[0].ast if pa else None, 'the wrapper waits for the new prompt iff it changed it', kind='path', tag='which-prompt')
    sp_ = [n for n in gi.nodes if n.ast is not None and any(callee_last(k) == 'set_prompt' for k in node_calls(n))]
    okf = len(sp_) == 1 and (PC, False) in conditions(gi, sp_[0]) and 'prompt_change.format(new_prompt, continuation_prompt)' in norm(sp_[0].ast)
    t = [sp_[0]] if sp_ else [gi.entry]
    c.check(okf, init, sp_[0].ast if sp_ else t[0].ast, 'the prompt change command is formatted with (new prompt, continuation prompt) in that order', kind='ast', tag='format-order')
    spf = repo.func('replwrap:REPLWrapper.set_prompt')
    gsp = spf.cfg
    ex_ = cfg_nodes_with_call(spf, lambda k: callee_last(k) == 'expect' and k.args and is_name(k.args[0], spf.params[1]))
    sl_ = cfg_nodes_with_call(spf, lambda k: callee_last(k) == 'sendline' and k.args and is_name(k.args[0], spf.params[2]))
    c.check(len(ex_) == 1 and len(sl_) == 1 and gsp.dominated_by(sl_[0][0], {ex_[0][0]})[0] and gsp.dominated_by(gsp.exit, {sl_[0][0]})[0], spf,
            sl_[0][1] if sl_ else None, 'set_prompt waits for the original prompt, then sends the prompt-change command (once)', kind='path', tag='set-prompt')
    sy = [n for n, k in cfg_nodes_with_call(init, lambda k: callee_last(k) == '_expect_prompt')]
    cp = [n for n in gi.nodes if n.kind == 'stmt' and stmt_assigns_attr(n.ast, 'continuation_prompt') is not None]
    ok = len(sy) == 1 and gi.dominated_by(gi.exit, {sy[0]})[0] and bool(cp) and gi.dominated_by(sy[0], {cp[0]})[0] and all(gi.dominated_by(sy[0], {p})[0] or True for p in p1 + p2)
    c.check(ok, init, sy[0].ast if sy else None, 'the constructor synchronises on the first prompt exactly once, after both prompts are configured', tag='initial-sync')


MUTANTS = [
    ('skip-collect', 'replwrap', "            self._expect_prompt(timeout=timeout)\n            res.append(self.child.before)\n            self.child.sendline(line)", "            self._expect_prompt(timeout=timeout)\n            self.child.sendline(line)", 'D1'),
    ('collect-after-send', 'replwrap', "            self._expect_prompt(timeout=timeout)\n            res.append(self.child.before)\n            self.child.sendline(line)", "            self._expect_prompt(timeout=timeout)\n            self.child.sendline(line)\n            res.append(self.child.after)", 'D1'),
    ('join-last-only', 'replwrap', "        return u''.join(res + [self.child.before])", "        return u''.join([self.child.before])", 'D1'),
    ('join-newline', 'replwrap', "        return u''.join(res + [self.child.before])", "        return u'\\n'.join(res + [self.child.before])", 'D1'),
    ('async-skip-collect', '_async_w_await', "        await repl._expect_prompt(timeout=timeout, async_=True)\n        res.append(repl.child.before)\n        repl.child.sendline(line)", "        await repl._expect_prompt(timeout=timeout, async_=True)\n        repl.child.sendline(line)", 'D1'),
    ('continuation-index-0', 'replwrap', "        if self._expect_prompt(timeout=timeout) == 1:", "        if self._expect_prompt(timeout=timeout) == 0:", 'D2'),
    ('prompt-list-swapped', 'replwrap', "        return self.child.expect_exact([self.prompt, self.continuation_prompt],", "        return self.child.expect_exact([self.continuation_prompt, self.prompt],", 'D2'),
    ('no-resync', 'replwrap', "            self.child.kill(signal.SIGINT)\n            self._expect_prompt(timeout=1)\n            raise ValueError", "            self.child.kill(signal.SIGINT)\n            raise ValueError", 'D2'),
    ('async-no-kill', '_async_w_await', "        repl.child.kill(signal.SIGINT)\n        await repl._expect_prompt(timeout=1, async_=True)", "        await repl._expect_prompt(timeout=1, async_=True)", 'D2'),
    ('insert-empty', 'replwrap', "    return _repl_sh(command, ['--rcfile', bashrc], non_printable_insert='\\\\[\\\\]')", "    return _repl_sh(command, ['--rcfile', bashrc], non_printable_insert='')", 'D4'),
    ('ps1-split-at-0', 'replwrap', "    ps1 = PEXPECT_PROMPT[:5] + non_printable_insert + PEXPECT_PROMPT[5:]", "    ps1 = PEXPECT_PROMPT[:0] + non_printable_insert + PEXPECT_PROMPT[0:]", 'D4'),
    ('ps2-wrong-const', 'replwrap', "    ps2 = PEXPECT_CONTINUATION_PROMPT[:5] + non_printable_insert + PEXPECT_CONTINUATION_PROMPT[5:]", "    ps2 = PEXPECT_CONTINUATION_PROMPT[:5] + non_printable_insert + PEXPECT_PROMPT[5:]", 'D4'),
    ('no-trailing-line', 'replwrap', "        if command.endswith('\\n'):\n            cmdlines.append('')\n", "", 'D5'),
    ('format-swapped', 'replwrap', "prompt_change.format(new_prompt, continuation_prompt))", "prompt_change.format(continuation_prompt, new_prompt))", 'D5'),
    ('set-prompt-no-wait', 'replwrap', "        self.child.expect(orig_prompt)\n        self.child.sendline(prompt_change)", "        self.child.sendline(prompt_change)", 'D5'),
    ('first-line-twice', 'replwrap', "        res = []\n        self.child.sendline(cmdlines[0])\n        for line in cmdlines[1:]:", "        res = []\n        self.child.sendline(cmdlines[0])\n        for line in cmdlines:", 'D1'),
]
PRESERVING = []

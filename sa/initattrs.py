"""Class-level definite assignment: which ``self.x`` are assigned on EVERY
normal path of a constructor (following super().__init__, Base.__init__(self,..)
and self.method(...) calls, resolved for the concrete class)."""
import ast

from .astx import assigned_targets, calls_in, dotted, src
from .lib import node_roots


def _direct_attrs(n):
    out = set()
    a = n.ast
    if n.kind in ('stmt', 'for', 'with') and a is not None and not isinstance(a, (ast.FunctionDef, ast.AsyncFunctionDef, ast.ClassDef)):
        if n.kind == 'stmt' or n.kind == 'for' or n.kind == 'with':
            for t in assigned_targets(a) if not (n.kind == 'stmt' and isinstance(a, (ast.If, ast.While))) else []:
                if isinstance(t, ast.Attribute) and isinstance(t.value, ast.Name) and t.value.id == 'self':
                    out.add(t.attr)
    return out


def _callee_inits(repo, fi, cls, n):
    out = []
    for r in node_roots(n):
        for k in calls_in(r):
            f = k.func
            if not isinstance(f, ast.Attribute):
                continue
            recv = f.value
            tgt = None
            if isinstance(recv, ast.Call) and isinstance(recv.func, ast.Name) and recv.func.id == 'super':
                after = fi.cls.name if fi.cls is not None else None
                if recv.args and isinstance(recv.args[0], ast.Name):
                    after = recv.args[0].id
                tgt = repo.resolve_method(cls, f.attr, after=after)
            elif isinstance(recv, ast.Name) and recv.id == 'self':
                tgt = repo.resolve_method(cls, f.attr)
            else:
                d = dotted(recv)
                if d and d.split('.')[-1] in repo.classes and k.args and isinstance(k.args[0], ast.Name) and k.args[0].id == 'self':
                    tgt = repo.resolve_method(repo.classes[d.split('.')[-1]], f.attr)
            if tgt is not None:
                out.append(tgt)
    return out


def definite_attrs(repo, fi, cls, _stack=None):
    """(definitely assigned on all normal paths, assigned on some path only)"""
    stack = _stack or []
    if fi.qual in stack:
        return set(), set()
    stack = stack + [fi.qual]
    g = fi.cfg
    node_add = {}
    some = set()
    for n in g.nodes:
        add = set(_direct_attrs(n))
        for tgt in _callee_inits(repo, fi, cls, n):
            d, c = definite_attrs(repo, tgt, cls, stack)
            add |= d
            some |= c | d
        node_add[n] = add
        some |= add
    # must-dataflow: IN = intersection over predecessors (skip exc edges)
    ALL = None
    out = {}
    order = list(g.nodes)
    out[g.entry] = frozenset()
    changed = True
    it = 0
    while changed and it < 200:
        changed = False
        it += 1
        for n in order:
            if n is g.entry:
                continue
            preds = [p for p, l in n.pred if l != 'exc' and p in out]
            if not preds:
                continue
            cur = None
            for p in preds:
                s = out[p]
                cur = s if cur is None else (cur & s)
            new = frozenset(cur | node_add[n])
            if out.get(n) != new:
                out[n] = new
                changed = True
    definite = set(out.get(g.exit, frozenset()))
    return definite, some - definite


def class_level_names(repo, cls):
    """Names resolvable on the class itself: class attributes, methods,
    properties of the MRO (reading them can not raise AttributeError)."""
    out = set()
    for k in repo.mro(cls):
        out.update(k.class_attrs)
        for m, f in k.methods.items():
            if not any('property' in src(d) or '.setter' in src(d) for d in f.node.decorator_list):
                out.add(m.split('.')[0])
    return out

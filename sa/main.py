"""Driver: ./check <Cxx> --tier quick|thorough [--repo DIR] [--replay FILE]

exit 0  every rule instance held (known findings are printed, not alarms)
exit 1  VIOLATION: a specific construct breaks a clause
exit 2  ANALYSIS-ERROR: anchor vanished / idiom unknown / below floor / crash
"""
import argparse
import importlib
import json
import os
import sys
import time
import traceback

from .loader import Repo, AnalysisError
from . import report

ALL = ['C%02d' % i for i in range(1, 21)]


def load_prop(pid):
    return importlib.import_module('sa.props.%s' % pid.lower())


def analyse(pid, repo, tier, seed=0):
    mod = load_prop(pid)
    run = report.Run(pid, tier, repo, seed)
    run.extra['explanation'] = getattr(mod, 'EXPLANATION', '')
    run.trusted = list(getattr(mod, 'TRUSTED', []))
    run.assumptions = list(getattr(mod, 'ASSUMPTIONS', []))
    try:
        mod.run(run)
    except AnalysisError as e:
        run.errors.append(str(e))
    except Exception:
        # a rule crashed on code it did not expect (typically after an earlier clause lost its anchors)
        run.errors.append('internal error: ' + traceback.format_exc()[-400:])
    return run


def main(argv=None):
    ap = argparse.ArgumentParser()
    ap.add_argument('prop')
    ap.add_argument('--tier', default=os.environ.get('VERIF_TIER') or 'quick',
                    choices=['quick', 'thorough'])
    ap.add_argument('--repo', default=os.environ.get('VERIF_REPO') or '/repo')
    ap.add_argument('--replay', default=None)
    ap.add_argument('--no-evidence', action='store_true')
    ap.add_argument('--no-selftest', action='store_true')
    ap.add_argument('--known', default=None)
    args = ap.parse_args(argv)
    pid = args.prop.upper()
    try:
        seed = int(os.environ.get('VERIF_SEED') or 0)
    except ValueError:
        seed = 0
    out = lambda s: (sys.stdout.write(s + '\n'), sys.stdout.flush())
    try:
        if pid not in ALL:
            raise AnalysisError('unknown property %s' % pid)
        repo = Repo(args.repo)
        run = analyse(pid, repo, args.tier, seed)
        known = report.load_known(args.known)
        selftest = None
        if args.tier == 'thorough' and not args.no_selftest:
            from . import selftest as st
            selftest = st.run_selftest(pid, args.repo, out)
        evp = None if (args.no_evidence or args.replay) else \
            os.path.join(report.VERIF, 'evidence', '%s.json' % pid)
        if args.replay:
            with open(args.replay) as f:
                rp = json.load(f)
            hits = [o for o in run.violations()
                    if o.clause == rp['clause'] and o.unit == rp['unit'] and o.key == rp['construct']]
            if hits and not report.match_known(hits[0], known):
                o = hits[0]
                out('VIOLATION property=%s replay=%s' % (pid, args.replay))
                out('  %s %s %s-%s %s: %s' % (o.loc, o.unit, o.prop, o.clause, o.rule, o.what))
                return 1
            out('replay: obligation %s-%s %s no longer violated on %s'
                % (pid, rp['clause'], rp['unit'], args.repo))
            return 0
        rc = report.emit(run, known, out, evp, selftest)
        nob = sum(len(c.obs) for c in run.clauses)
        out('SUMMARY property=%s tier=%s clauses=%d obligations=%d new_violations=%d wall=%.2fs'
            % (pid, args.tier, len(run.clauses), nob,
               sum(1 for o in run.violations() if o.known is None), time.time() - run.t0))
        return rc
    except AnalysisError as e:
        out('ANALYSIS-ERROR property=%s %s' % (pid, e))
        return 2
    except Exception:
        out('ANALYSIS-ERROR property=%s internal error:\n%s' % (pid, traceback.format_exc()))
        return 2


if __name__ == '__main__':
    sys.exit(main())

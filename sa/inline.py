"""Inlining of extracted private helpers (part of the canonical form, see canon.py).

"Extract method" is the most common refactoring; a rule that reads the body of `terminate()` must see the same program
whether the four signal blocks are written out or moved into `_kill_and_check(sig)`.  Every call of a private helper that
is NOT one of the helpers the package has always had (KNOWN_HELPERS: the rules name those as anchors) is replaced by the
helper's body when the call is a statement of a supported shape:

    h(args)                      expression statement
    T = h(args)                  assignment (any target, also a tuple)
    return h(args)               the helper's returns become the caller's returns
    if h(args): / if not h(args) the value is first put into a temporary
    ... = await h(args)          for `async def` helpers

Supported helper bodies: no nested def/lambda/yield/global/nonlocal/try-finally around a return, no recursion, no *args/**kw;
`return` only in tail position (last statement of the body or of a branch of a trailing if/else chain).  Parameters that are
plain names or constants are substituted, other arguments are bound to fresh locals; helper locals are renamed only when they
clash with a name of the caller.  The helper definition itself stays in the module.  Anything not supported is left as a call
(the rules then see a call they do not know, which at worst makes them exit 2, never report a violation).
"""
import ast
import copy

KNOWN_HELPERS = frozenset('''
_wrap_ptyprocess_err _unicode _timeout _spawnpty _spawn _set_buffer _repl_sh _read_incoming _pattern_type_err
_log_control _log _get_buffer _expect_prompt _decode _coerce_send_string _coerce_expect_string _coerce_expect_re
__interact_writen __interact_read __interact_copy _spawn__interact_writen _spawn__interact_read _spawn__interact_copy
_NullCoder _Folder
'''.split())


# names of all public functions and methods the package defines at the pinned snapshot: a module-level function with a NEW public name
# (`PopNumber(fsm)`) is an extracted helper like a private one
KNOWN_PUBLIC = frozenset('''
BeginBuildNumber BuildNumber DoBack DoBackOne DoBuildNumber DoCursorRestore DoCursorSave DoDown DoDownOne DoEmit DoEnableScroll DoEqual
DoErase DoEraseDown DoEraseEndOfLine DoEraseLine DoForward DoForwardOne DoHome DoHomeOrigin DoLog DoMode DoOperator DoScrollRegion
DoStartNumber DoUp DoUpOne DoUpReverse EndBuildNumber Error __enter__ __exit__ __init__ __iter__ __str__ add_transition add_transition_any
add_transition_list bash clear_all_tabs clear_tab close compile_pattern_list connection_lost connection_made constrain cr crlf cursor_back
cursor_constrain cursor_down cursor_force_position cursor_forward cursor_home cursor_restore_attrs cursor_save cursor_save_attrs
cursor_unsave cursor_up cursor_up_reverse data_received decode do_decsca do_modecrap do_search do_sgr dump encode eof eof_received
erase_down erase_end_of_line erase_line erase_screen erase_start_of_line erase_up error errored existing_data expect expect_async
expect_exact expect_list expect_loop fileno fill fill_region flag_eof flush found get get_abs get_region get_trace get_transition getecho
getwinsize insert insert_abs interact is_executable_file isalive isatty kill levenshtein_distance lf login logout main new_data newline
poll_ignore_interrupts preexec_wrapper prepare_pattern pretty process process_list prompt put put_abs python quote read read_nonblocking
readline readlines repl_run_command_async reset run run_command runu scroll_constrain scroll_down scroll_screen scroll_screen_rows
scroll_up search select select_ignore_interrupts send sendcontrol sendeof sendintr sendline set_default_transition set_expecter set_prompt
set_tab set_unique_prompt setecho setwinsize spawnu split_command_line sync_original_prompt terminate timeout try_read_prompt wait
waitnoecho which write write_ch write_to_stdout writelines zsh
'''.split())


# parameter names of those helpers at the pinned snapshot: a parameter that is not listed here was added by a later edit
KNOWN_PARAMS = {
    '__interact_copy': 'escape_character input_filter output_filter self', '__interact_read': 'fd self', '__interact_writen': 'data fd self',
    '_coerce_expect_re': 'r self', '_coerce_expect_string': 's self', '_coerce_send_string': 's self', '_decode': 's self',
    '_expect_prompt': 'async_ self timeout', '_get_buffer': 'self', '_log': 'direction s self', '_log_control': 's self',
    '_pattern_type_err': 'pattern self', '_read_incoming': 'self', '_repl_sh': 'args command non_printable_insert', '_set_buffer': 'self value',
    '_spawn': 'args command dimensions preexec_fn self', '_spawnpty': 'args kwargs self', '_timeout': 'self timeout', '_unicode': 'self',
    '_wrap_ptyprocess_err': '',
}


def _const(e):
    if isinstance(e, ast.Constant):
        return True
    return isinstance(e, ast.UnaryOp) and isinstance(e.op, ast.USub) and isinstance(e.operand, ast.Constant)


def specialise_new_params(trees, skip=()):
    """"Parametrise method": one of the package's own helpers (KNOWN_HELPERS, which the rules read by name and which are therefore
    not inlined) is given an extra parameter with a constant default -- `_log_control(self, s, direction='send')` -- and some
    callers now pass another constant.  The helper itself is read with the default put in place of the parameter (that is what
    it was before), and every call that passes a different constant goes to a copy of the helper specialised for that constant;
    the copy is an ordinary extracted helper and is written back into its callers by the inliner.  Not done when the helper is
    referenced other than by direct calls, when a call uses * / **, when a call passes something that is not a constant, or when
    the body assigns the parameter."""
    defs = {}
    for m, t in trees.items():
        if m in skip:
            continue
        for st in t.body:
            if isinstance(st, (ast.FunctionDef, ast.AsyncFunctionDef)):
                defs.setdefault(st.name, []).append((m, None, st, t.body))
            elif isinstance(st, ast.ClassDef):
                for f in st.body:
                    if isinstance(f, (ast.FunctionDef, ast.AsyncFunctionDef)):
                        defs.setdefault(f.name, []).append((m, st, f, st.body))
    done = 0
    for name in sorted(KNOWN_PARAMS):
        if len(defs.get(name, [])) != 1:
            continue
        m, cls, node, owner = defs[name][0]
        a = node.args
        if a.vararg or a.kwarg or a.posonlyargs or a.kwonlyargs or node.decorator_list:
            continue
        params = [x.arg for x in a.args]
        dflt = dict(zip(params[len(params) - len(a.defaults):], a.defaults))
        known = set(KNOWN_PARAMS[name].split())
        new = [q for q in params if q not in known]
        if not new or any(q not in dflt or not _const(dflt[q]) for q in new):
            continue
        # new parameters must come last (a call written for the old signature still means the same)
        if params[len(params) - len(new):] != new:
            continue
        mangled = ('_%s%s' % (cls.name.lstrip('_'), name)) if (cls is not None and name.startswith('__') and not name.endswith('__')) else name
        calls, bad = [], False
        for mm, t in trees.items():
            if mm in skip:
                continue
            funcs = set()
            for n in ast.walk(t):
                if isinstance(n, ast.Call):
                    f = n.func
                    if (isinstance(f, ast.Attribute) and f.attr in (name, mangled)) or (isinstance(f, ast.Name) and f.id == name):
                        calls.append(n)
                        funcs.add(id(f))
            for n in ast.walk(t):
                if id(n) in funcs:
                    continue
                if (isinstance(n, ast.Attribute) and n.attr in (name, mangled)) or (isinstance(n, ast.Name) and n.id == name and isinstance(n.ctx, ast.Load)) \
                        or (isinstance(n, ast.Constant) and n.value in (name, mangled)):
                    bad = True
        if bad or not calls:
            continue
        assigned = set(n.id for n in ast.walk(node) if isinstance(n, ast.Name) and isinstance(n.ctx, (ast.Store, ast.Del)))
        if any(q in assigned for q in new):
            continue
        bound = cls is not None
        plan = []
        for k in calls:
            if any(isinstance(x, ast.Starred) for x in k.args) or any(kw.arg is None for kw in k.keywords):
                bad = True
                break
            is_bound = isinstance(k.func, ast.Attribute) and not (isinstance(k.func.value, ast.Name) and cls is not None and k.func.value.id == cls.name)
            offs = 1 if (bound and is_bound) else 0
            vals = {}
            for q in new:
                i = params.index(q) - offs
                v = None
                if 0 <= i < len(k.args):
                    v = k.args[i]
                for kw in k.keywords:
                    if kw.arg == q:
                        v = kw.value
                if v is None:
                    v = dflt[q]
                if not _const(v):
                    bad = True
                vals[q] = v
            plan.append((k, offs, vals))
        if bad:
            continue
        clones = {}
        for k, offs, vals in plan:
            key = tuple((q, ast.dump(vals[q])) for q in new)
            if all(ast.dump(vals[q]) == ast.dump(dflt[q]) for q in new):
                continue
            if key not in clones:
                cl = copy.deepcopy(node)
                tag = '_'.join('%s_%s' % (q, ''.join(ch if ch.isalnum() else '_' for ch in ast.unparse(vals[q]).strip('\'"'))) for q in new)
                cl.name = '%s__%s' % (name, tag)
                keep = [x for x in cl.args.args if x.arg not in new]
                cl.args.defaults = cl.args.defaults[:len(cl.args.defaults) - len(new)]
                cl.args.args = keep
                sub = _Subst(dict((q, vals[q]) for q in new))
                cl.body = [sub.visit(st) for st in cl.body]
                owner.insert(owner.index(node) + 1, cl)
                clones[key] = cl
            cl = clones[key]
            if isinstance(k.func, ast.Attribute):
                k.func.attr = cl.name
            else:
                k.func.id = cl.name
            first_new = params.index(new[0]) - offs
            k.args = k.args[:first_new]
            k.keywords = [kw for kw in k.keywords if kw.arg not in new]
            done += 1
        sub = _Subst(dict((q, dflt[q]) for q in new))
        node.body = [sub.visit(st) for st in node.body]
        done += 1
    return done


def _is_private(name):
    return name.startswith('_') and not (name.startswith('__') and name.endswith('__'))


class _Helper(object):
    def __init__(self, node, cls, module):
        self.node, self.cls, self.module = node, cls, module
        decos = [ast.unparse(d) for d in node.decorator_list]
        self.static = 'staticmethod' in decos
        self.ok = all(d in ('staticmethod',) for d in decos)
        a = node.args
        self.vararg = None
        if a.vararg and not (a.kwarg or a.posonlyargs or a.kwonlyargs):
            # h(self, f, *args) whose body uses args only as f(*args): the caller's extra positional arguments are written in place
            va = a.vararg.arg
            uses = [n for n in ast.walk(node) if isinstance(n, ast.Name) and n.id == va]
            stars = [n for n in ast.walk(node) if isinstance(n, ast.Starred) and isinstance(n.value, ast.Name) and n.value.id == va]
            calls_ = [c_ for c_ in ast.walk(node) if isinstance(c_, ast.Call) and any(st_ in c_.args for st_ in stars)]
            if uses and len(uses) == len(stars) and len(calls_) == len(stars):
                self.vararg = va
            else:
                self.ok = False
        elif a.vararg or a.kwarg or a.posonlyargs or a.kwonlyargs:
            self.ok = False
        self.params = [x.arg for x in a.args]
        self.defaults = dict(zip(self.params[len(self.params) - len(a.defaults):], a.defaults))
        self.is_async = isinstance(node, ast.AsyncFunctionDef)
        self.touches_attrs = any((isinstance(n, ast.Attribute) and isinstance(n.ctx, (ast.Store, ast.Del))) or
                                 (isinstance(n, ast.Call) and isinstance(n.func, ast.Attribute)) for n in ast.walk(node))
        for n in ast.walk(node):
            if n is node:
                continue
            if isinstance(n, (ast.ClassDef, ast.Yield, ast.YieldFrom, ast.Global, ast.Nonlocal)):
                self.ok = False
            if isinstance(n, (ast.FunctionDef, ast.AsyncFunctionDef)) and any(isinstance(x, ast.Return) and x.value is not None for x in ast.walk(n)) and False:
                self.ok = False
            if isinstance(n, ast.Call) and ((isinstance(n.func, ast.Attribute) and n.func.attr == node.name) or
                                            (isinstance(n.func, ast.Name) and n.func.id == node.name)):
                self.ok = False      # recursion
            if isinstance(n, ast.Call) and isinstance(n.func, ast.Name) and n.func.id in ('locals', 'vars'):
                self.ok = False
            if isinstance(n, ast.Call) and isinstance(n.func, ast.Name) and n.func.id == 'super' and cls is None:
                self.ok = False
        # `return h(...)` sites can take any helper (its returns simply become the caller's); other sites need tail returns
        self.tail_ok = self._returns_in_tail(node.body)

    def _returns_in_tail(self, body):
        """every Return is the last statement of `body` or sits (recursively) in a branch of a trailing If whose remaining
        statements follow: i.e. after canonicalisation: `if c: ...; return A` guard clauses and if/else chains"""
        for i, s in enumerate(body):
            last = i == len(body) - 1
            if isinstance(s, ast.Return):
                if not last:
                    return False
            elif isinstance(s, ast.If):
                has = any(isinstance(x, ast.Return) for x in _walk_own(s))
                if has:
                    # both arms are themselves tail-return blocks; an arm that contains a return either ENDS the function or, where it
                    # falls through (`if a: if b: return X` ; rest), continues with the statements after the if -- which must then be
                    # tail-return blocks too (see _tail: they are repeated at the end of that arm)
                    rest = body[i + 1:]
                    for arm in (s.body, s.orelse):
                        if any(isinstance(x, ast.Return) for st in arm for x in _walk_own(st)):
                            if _ends(arm):
                                if not self._returns_in_tail(arm):
                                    return False
                            elif len(rest) > 6 or not self._returns_in_tail(list(arm) + list(rest)):
                                return False
            elif isinstance(s, (ast.FunctionDef, ast.AsyncFunctionDef)):
                continue
            elif isinstance(s, (ast.With, ast.AsyncWith)) and last and any(isinstance(x, ast.Return) for x in _walk_own(s)):
                # `with cm: ...; return E` as the helper's last statement: the value is taken inside the block, the block is left right after
                if not self._returns_in_tail(s.body):
                    return False
            elif isinstance(s, ast.Try) and last and not s.orelse and any(isinstance(x, ast.Return) for x in _walk_own(s)):
                # a try statement as the helper's last statement: returns in tail position of its body / handlers
                if not self._returns_in_tail(s.body) or not all(self._returns_in_tail(h.body) for h in s.handlers):
                    return False
                if any(isinstance(x, ast.Return) for st in s.finalbody for x in _walk_own(st)):
                    return False
            elif isinstance(s, ast.Try) and not last and not s.finalbody and not _has_return(s.body) and not _has_return(s.orelse) \
                    and all(_ends(h.body) and self._returns_in_tail(h.body) for h in s.handlers):
                # `try: A except E: ...; return X` followed by more statements: every handler leaves the helper, so what follows runs exactly when
                # no handler ran -- it is the try's else part (see _tail)
                continue
            elif any(isinstance(x, ast.Return) for x in _walk_own(s)):
                return False          # return inside a loop, or inside a try / with that is not the last statement
        return True


def _ends(arm):
    if not arm:
        return False
    s = arm[-1]
    if isinstance(s, (ast.Return, ast.Raise)):
        return True
    if isinstance(s, ast.If) and s.orelse:
        return _ends(s.body) and _ends(s.orelse)
    return False


class _Subst(ast.NodeTransformer):
    def __init__(self, mapping):
        self.m = mapping

    def visit_Name(self, n):
        if n.id in self.m:
            r = self.m[n.id]
            if isinstance(r, str):
                return ast.copy_location(ast.Name(id=r, ctx=n.ctx), n)
            if isinstance(n.ctx, ast.Load):
                return copy.deepcopy(r)
        return n


def _walk_own(node):
    """ast.walk that does not descend into nested function definitions / lambdas (their returns are their own)"""
    stack = [node]
    while stack:
        n = stack.pop()
        yield n
        for c_ in ast.iter_child_nodes(n):
            if isinstance(c_, (ast.FunctionDef, ast.AsyncFunctionDef, ast.Lambda)):
                continue
            stack.append(c_)


def _has_return(stmts):
    return any(isinstance(x, ast.Return) for st in stmts for x in _walk_own(st))


def _tail(body, mk, at):
    """body with every tail `return E` replaced by mk(E) (a list of statements); the statements after an if one of whose arms
    returns move into the other arm, so that they are skipped exactly when the original returned"""
    out = []
    for i, s in enumerate(body):
        if isinstance(s, ast.Return):
            out.extend(mk(s.value, s))
            return out
        if isinstance(s, ast.If) and _has_return([s]):
            rest = body[i + 1:]
            b_ret, e_ret = _has_return(s.body), _has_return(s.orelse)
            # an arm that returns on every path ends there; one that may fall through goes on with (its own copy of) what follows the if
            def cont(arm, ret):
                if ret and _ends(arm):
                    return list(arm)
                return list(arm) + (copy.deepcopy(rest) if ret else rest)
            if b_ret and e_ret:
                nb, ne = _tail(cont(s.body, True), mk, at), _tail(cont(s.orelse, True), mk, at)
            elif b_ret:
                nb, ne = _tail(cont(s.body, True), mk, at), _tail(list(s.orelse) + rest, mk, at)
            else:
                nb, ne = _tail(list(s.body) + rest, mk, at), _tail(cont(s.orelse, True), mk, at)
            out.append(ast.copy_location(ast.If(test=s.test, body=nb or [ast.copy_location(ast.Pass(), s)], orelse=ne), s))
            return out
        if isinstance(s, (ast.With, ast.AsyncWith)) and i == len(body) - 1 and _has_return([s]):
            ns = copy.copy(s)
            ns.body = _tail(s.body, mk, at)
            out.append(ns)
            return out
        if isinstance(s, ast.Try) and i < len(body) - 1 and _has_return([s]) and not s.finalbody and not _has_return(s.body) and not _has_return(s.orelse) \
                and all(_ends(h.body) for h in s.handlers):
            ns = copy.copy(s)
            ns.handlers = []
            for h in s.handlers:
                nh = copy.copy(h)
                nh.body = _tail(h.body, mk, at)
                ns.handlers.append(nh)
            ns.orelse = _tail(list(s.orelse) + list(body[i + 1:]), mk, at)
            out.append(ns)
            return out
        if isinstance(s, ast.Try) and i == len(body) - 1 and _has_return([s]):
            ns = copy.copy(s)
            ns.body = _tail(s.body, mk, at)
            ns.handlers = []
            for h in s.handlers:
                nh = copy.copy(h)
                nh.body = _tail(h.body, mk, at)
                ns.handlers.append(nh)
            out.append(ns)
            return out
        out.append(s)
    if not (out and isinstance(out[-1], ast.Raise)):
        out.extend(mk(None, at))          # fell off the end: the helper returned None
    return out


class Inliner(object):
    def __init__(self, trees):
        self.cls_helpers = {}       # method name -> _Helper (unique among the classes of the package)
        self.own_helpers = {}       # (module, class name) -> {method name -> _Helper}   (a method of the calling class itself wins)
        self.mod_helpers = {}       # module -> {function name -> _Helper}   (a bare name is looked up in its own module)
        self.cur = None
        dup = set()
        for m, t in trees.items():
            self.mod_helpers[m] = {}
            for st in t.body:
                if isinstance(st, (ast.FunctionDef, ast.AsyncFunctionDef)):
                    if (_is_private(st.name) and st.name not in KNOWN_HELPERS) or (not st.name.startswith('_') and st.name not in KNOWN_PUBLIC):
                        self.mod_helpers[m][st.name] = _Helper(st, None, m)
                elif isinstance(st, ast.ClassDef):
                    for f in st.body:
                        if isinstance(f, (ast.FunctionDef, ast.AsyncFunctionDef)):
                            self._add(f, st, m, dup)
        for d in dup:
            self.cls_helpers.pop(d, None)
        self.count = 0
        self.tmp = 0
        self.opaque = set()

    def _add(self, f, cls, m, dup):
        name = f.name
        if not _is_private(name) or name in KNOWN_HELPERS:
            return
        h = _Helper(f, cls, m)
        self.own_helpers.setdefault((m, cls.name), {})[name] = h
        if name in self.cls_helpers:
            dup.add(name)
            return
        self.cls_helpers[name] = h

    def all_helpers(self):
        seen = set()
        for d in self.own_helpers.values():
            for h in d.values():
                if id(h) not in seen:
                    seen.add(id(h))
                    yield h
        for d in self.mod_helpers.values():
            for h in d.values():
                yield h

    # ---- call recognition
    def _callee(self, call, cls_stack):
        if isinstance(call, ast.Await):
            call = call.value
        if not isinstance(call, ast.Call) or call.keywords and any(k.arg is None for k in call.keywords):
            return None
        if any(isinstance(a, ast.Starred) for a in call.args):
            return None
        f = call.func
        name = None
        bound = False
        if isinstance(f, ast.Name):
            name = f.id
        elif isinstance(f, ast.Attribute) and isinstance(f.value, ast.Name) and f.value.id == 'self':
            name, bound = f.attr, True
            # name mangling of __x inside a class
        if name is None:
            return None
        table = self.cls_helpers if bound else self.mod_helpers.get(self.cur, {})
        own = self.own_helpers.get((self.cur, cls_stack[-1].name), {}) if (bound and cls_stack) else {}
        h = own.get(name) or table.get(name)
        if not bound and name in getattr(self, 'local_helpers', {}):
            h = self.local_helpers[name]
        if h is None and name.startswith('_') and '__' in name[1:]:
            h = own.get('__' + name.split('__', 1)[1]) or table.get('__' + name.split('__', 1)[1])
        if h is None or not h.ok:
            return None
        if bound and h.cls is None:
            return None
        if not bound and h.cls is not None:
            return None
        return h, call, bound

    def _bind(self, h, call, bound, caller_names, overwritten=()):
        params = list(h.params)
        if bound and not h.static:
            params = params[1:]           # self stays self
        args = list(call.args)
        extra = []
        if len(args) > len(params):
            if getattr(h, 'vararg', None) is None:
                return None
            extra = args[len(params):]
            args = args[:len(params)]
            if not all(isinstance(x, (ast.Name, ast.Constant)) for x in extra):
                return None          # (only plain names / constants are written in place of *args)
        binding = {}
        for p, a in zip(params, args):
            binding[p] = a
        for k in call.keywords:
            if k.arg not in params or k.arg in binding:
                return None
            binding[k.arg] = k.value
        for p in params:
            if p not in binding:
                if p in h.defaults:
                    binding[p] = h.defaults[p]
                else:
                    return None
        assigned = set()
        for n in ast.walk(h.node):
            if isinstance(n, ast.Name) and isinstance(n.ctx, (ast.Store, ast.Del)):
                assigned.add(n.id)
        pre = []
        mapping = {}
        for p in params:
            a = binding[p]
            simple = isinstance(a, (ast.Name, ast.Constant)) or (isinstance(a, ast.Attribute) and _modconst(a))
            if not simple and isinstance(a, ast.Attribute) and _selfchain(a) and (h.cls is None or h.static) and not h.touches_attrs:
                simple = True       # a function without `self` that stores no attribute and calls no method cannot change self.<attr> between its reads
            if isinstance(a, ast.Name) and a.id == p and p in overwritten:
                continue        # x = h(x): the caller's x is overwritten by the call anyway, the helper may work on it directly
            if simple and p not in assigned:
                if isinstance(a, ast.Name) and a.id == p:
                    continue
                mapping[p] = a
            else:
                self.tmp += 1
                nm = p if (p not in caller_names and not isinstance(a, ast.Name)) else '%s__%s%d' % (p, h.node.name.strip('_'), self.tmp)
                if nm in caller_names:
                    nm = '%s__%s%d' % (p, h.node.name.strip('_'), self.tmp)
                pa = ast.copy_location(ast.Assign(targets=[ast.Name(id=nm, ctx=ast.Store())], value=a), call)
                pa._inl = True          # a binding made up here (canon N41 / N44 may fold it back into the statement that reads it)
                pre.append(pa)
                if nm != p:
                    mapping[p] = nm
        # helper locals that clash with caller names
        for l in sorted(assigned - set(params)):
            if l in caller_names and l not in overwritten:
                self.tmp += 1
                mapping[l] = '%s__%s%d' % (l, h.node.name.strip('_'), self.tmp)
        body = [copy.deepcopy(s) for s in h.node.body]
        if body and isinstance(body[0], ast.Expr) and isinstance(body[0].value, ast.Constant) and isinstance(body[0].value.value, str):
            body = body[1:]
        sub = _Subst(mapping)
        body = [sub.visit(s) for s in body]
        if getattr(h, 'vararg', None) is not None:
            va = h.vararg

            class _Star(ast.NodeTransformer):
                def visit_Call(self_, n):
                    self_.generic_visit(n)
                    na = []
                    for x in n.args:
                        if isinstance(x, ast.Starred) and isinstance(x.value, ast.Name) and x.value.id == va:
                            na.extend(copy.deepcopy(e_) for e_ in extra)
                        else:
                            na.append(x)
                    n.args = na
                    return n
            body = [_Star().visit(s) for s in body]
        for s in body:
            for n in ast.walk(s):
                if hasattr(n, 'lineno'):
                    n.lineno = getattr(call, 'lineno', n.lineno)
                    n.end_lineno = getattr(call, 'end_lineno', None)
        return pre, body

    # ---- statements
    KNOWN_NESTED = frozenset(('select', 'prepare_pattern', 'preexec_wrapper', 'write_to_stdout'))

    def function(self, fn, cls_stack):
        # local closures that are only ever CALLED (never handed to anything): extracted pieces of this function, inlined like helpers
        self.local_helpers = {}
        for st in ast.walk(fn):
            if st is not fn and isinstance(st, ast.FunctionDef) and st.name not in self.KNOWN_NESTED and not st.decorator_list:
                refs = [n for n in ast.walk(fn) if isinstance(n, ast.Name) and n.id == st.name and isinstance(n.ctx, ast.Load)]
                callpos = set(id(c_.func) for c_ in ast.walk(fn) if isinstance(c_, ast.Call))
                inner_defs = [d_ for d_ in ast.walk(fn) if d_ is not fn and isinstance(d_, (ast.FunctionDef, ast.AsyncFunctionDef, ast.Lambda)) and d_ is not st]
                if refs and all(id(r) in callpos for r in refs) and not any(any(r is y for y in ast.walk(d_)) for d_ in inner_defs for r in refs) \
                        and sum(1 for d_ in ast.walk(fn) if isinstance(d_, ast.FunctionDef) and d_.name == st.name) == 1:
                    h = _Helper(st, None, self.cur)
                    if h.ok and h.tail_ok and not any(isinstance(x, (ast.Nonlocal,)) for x in ast.walk(st)):
                        self.local_helpers[st.name] = h
        names = set(n.id for n in ast.walk(fn) if isinstance(n, ast.Name)) | set(a.arg for a in fn.args.args)
        for _ in range(4):          # helpers calling helpers
            before = self.count
            fn.body = self.block(fn.body, fn, names, cls_stack)
            if self.count == before:
                break
            names = set(n.id for n in ast.walk(fn) if isinstance(n, ast.Name)) | set(a.arg for a in fn.args.args)
        # a local closure every call of which was written out is dropped
        for name, h in list(self.local_helpers.items()):
            if not any(isinstance(n, ast.Name) and n.id == name and isinstance(n.ctx, ast.Load) for n in ast.walk(fn)):
                for parent in ast.walk(fn):
                    for f_ in ('body', 'orelse', 'finalbody'):
                        v = getattr(parent, f_, None)
                        if isinstance(v, list) and h.node in v:
                            v.remove(h.node)
                            if not v:
                                v.append(ast.copy_location(ast.Pass(), h.node))
        self.local_helpers = {}

    def block(self, body, fn, names, cls_stack):
        out = []
        for s in body:
            if isinstance(s, (ast.FunctionDef, ast.AsyncFunctionDef, ast.ClassDef)):
                out.append(s)
                continue
            for f in ('body', 'orelse', 'finalbody'):
                v = getattr(s, f, None)
                if isinstance(v, list) and v and isinstance(v[0], ast.stmt):
                    setattr(s, f, self.block(v, fn, names, cls_stack))
            if isinstance(s, ast.Try):
                for h in s.handlers:
                    h.body = self.block(h.body, fn, names, cls_stack)
            # a short-circuit expression (`return a or h(x) or h(y)`, `ok = a and h(x)`, `if a or h(x):`) one of whose LATER operands calls a
            # helper: written as the if-chain it abbreviates, so that the helper calls become statement-level calls
            bo = getattr(s, 'value', None) if isinstance(s, (ast.Return, ast.Assign)) else (s.test if isinstance(s, ast.If) else None)
            if isinstance(bo, ast.BoolOp) and any(self._callee(x, cls_stack) and self._callee(x, cls_stack)[0].node is not fn
                                                  for v_ in bo.values[1:] for x in ast.walk(v_) if isinstance(x, (ast.Call, ast.Await))):
                is_or = isinstance(bo.op, ast.Or)

                def cond(e, at):
                    return e if is_or else ast.copy_location(ast.UnaryOp(op=ast.Not(), operand=e), at)
                new_ = None
                if isinstance(s, ast.Return):
                    new_ = []
                    for v_ in bo.values[:-1]:
                        if _is_bool(v_):
                            new_.append(ast.copy_location(ast.If(test=cond(v_, v_), body=[ast.copy_location(ast.Return(value=ast.copy_location(ast.Constant(value=is_or), v_)), s)], orelse=[]), s))
                        else:
                            self.tmp += 1
                            nm = '_v%d' % self.tmp
                            names = names | {nm}
                            pre = ast.copy_location(ast.Assign(targets=[ast.Name(id=nm, ctx=ast.Store())], value=v_), s)
                            pre._inl = True
                            new_.append(pre)
                            new_.append(ast.copy_location(ast.If(test=cond(ast.copy_location(ast.Name(id=nm, ctx=ast.Load()), v_), v_),
                                                                 body=[ast.copy_location(ast.Return(value=ast.copy_location(ast.Name(id=nm, ctx=ast.Load()), v_)), s)], orelse=[]), s))
                    new_.append(ast.copy_location(ast.Return(value=bo.values[-1]), s))
                elif isinstance(s, ast.Assign) and len(s.targets) == 1 and isinstance(s.targets[0], ast.Name) \
                        and not any(isinstance(x, ast.Name) and x.id == s.targets[0].id for v_ in bo.values[1:] for x in ast.walk(v_)):
                    tn_ = s.targets[0].id
                    first = ast.copy_location(ast.Assign(targets=[ast.Name(id=tn_, ctx=ast.Store())], value=bo.values[0]), s)
                    if getattr(s, '_inl', False):
                        first._inl = True
                    new_ = [first]
                    holder = new_
                    for v_ in bo.values[1:]:
                        nxt = ast.copy_location(ast.Assign(targets=[ast.Name(id=tn_, ctx=ast.Store())], value=v_), s)
                        test_ = ast.copy_location(ast.Name(id=tn_, ctx=ast.Load()), v_)
                        if is_or:
                            test_ = ast.copy_location(ast.UnaryOp(op=ast.Not(), operand=test_), v_)
                        guard = ast.copy_location(ast.If(test=test_, body=[nxt], orelse=[]), s)
                        holder.append(guard)
                        holder = guard.body
                elif isinstance(s, ast.If):
                    self.tmp += 1
                    nm = '_v%d' % self.tmp
                    names = names | {nm}
                    pre = ast.copy_location(ast.Assign(targets=[ast.Name(id=nm, ctx=ast.Store())], value=bo), s)
                    pre._inl = True
                    s.test = ast.copy_location(ast.Name(id=nm, ctx=ast.Load()), bo)
                    out.extend(self.block([pre], fn, names, cls_stack))
                    out.append(s)
                    self.count += 1
                    continue
                if new_ is not None:
                    for x in new_:
                        ast.fix_missing_locations(x)
                    self.count += 1
                    out.extend(self.block(new_, fn, names, cls_stack))
                    continue
            # the value of an if-test: hoist into a temporary first
            if isinstance(s, ast.If):
                t = s.test
                neg = isinstance(t, ast.UnaryOp) and isinstance(t.op, ast.Not)
                core = t.operand if neg else t
                if self._callee(core, cls_stack) and fn.name != self._callee(core, cls_stack)[0].node.name and self._callee(core, cls_stack)[0].tail_ok:
                    self.tmp += 1
                    nm = '_v%d' % self.tmp
                    pre = ast.copy_location(ast.Assign(targets=[ast.Name(id=nm, ctx=ast.Store())], value=core), s)
                    ref = ast.copy_location(ast.Name(id=nm, ctx=ast.Load()), core)
                    s.test = ast.copy_location(ast.UnaryOp(op=ast.Not(), operand=ref), t) if neg else ref
                    out.extend(self.block([pre], fn, names | {nm}, cls_stack))
                    out.append(s)
                    continue
            # a helper call anywhere in the expression of a simple statement (or of an if-test / raise), provided everything that is evaluated
            # before it is call-free: its value is taken into a temporary first (same evaluation order), the temporary assignment is then inlined
            root = None
            if isinstance(s, (ast.Expr, ast.Assign, ast.Return)) and s.value is not None:
                root = s.value
            elif isinstance(s, ast.Raise) and s.exc is not None:
                root = s.exc
            elif isinstance(s, ast.If):
                root = s.test
            direct = self._callee(root, cls_stack) if root is not None else None
            if direct and (isinstance(root, ast.Await) != direct[0].is_async):
                direct = None          # `await h(..)` with a plain function h that returns the awaitable: h(..) is an inner call
            if root is not None and not (direct and isinstance(s, (ast.Expr, ast.Assign, ast.Return))):
                found = None
                for x in _eval_order(root):
                    hit_ = self._callee(x, cls_stack) if isinstance(x, (ast.Call, ast.Await)) else None
                    if hit_ and hit_[0].tail_ok and hit_[0].node is not fn and (isinstance(x, ast.Await) == hit_[0].is_async):
                        if isinstance(x, ast.Call) and hit_[0].is_async:
                            break          # the call of a coroutine function that is awaited: the Await node is the unit
                        found = x
                        break
                    if isinstance(x, (ast.Call, ast.Await, ast.Yield, ast.YieldFrom, ast.NamedExpr, ast.Lambda, ast.ListComp, ast.SetComp, ast.DictComp, ast.GeneratorExp,
                                      ast.IfExp, ast.BoolOp)):
                        break          # something with an effect (or a conditional evaluation) comes first
                if found is not None and isinstance(s, (ast.Assign,)) and any(not _pure_expr(t_) for t_ in s.targets):
                    found = None
                if found is not None:
                    self.tmp += 1
                    nm = '_v%d' % self.tmp
                    pre = ast.copy_location(ast.Assign(targets=[ast.Name(id=nm, ctx=ast.Store())], value=found), s)
                    pre._inl = True
                    ref = ast.copy_location(ast.Name(id=nm, ctx=ast.Load()), found)

                    class _Rep(ast.NodeTransformer):
                        def visit(self_, n):
                            if n is found:
                                return ref
                            return ast.NodeTransformer.generic_visit(self_, n)
                    if isinstance(s, ast.Raise):
                        s.exc = _Rep().visit(s.exc)
                    elif isinstance(s, ast.If):
                        s.test = _Rep().visit(s.test)
                    else:
                        s.value = _Rep().visit(s.value)
                    out.extend(self.block([pre], fn, names | {nm}, cls_stack))
                    out.extend(self.block([s], fn, names | {nm}, cls_stack) if not isinstance(s, ast.If) else [s])
                    continue
            # a list comprehension whose element calls a helper: written as the loop it abbreviates (`acc = []; for ..: acc.append(elt)`), so that
            # the helper call becomes a statement-level call that can be inlined.  The loop variable must not be a name the function uses otherwise.
            lc = getattr(s, 'value', None) if isinstance(s, (ast.Assign, ast.Return)) else None
            if isinstance(lc, ast.ListComp) and len(lc.generators) == 1 and not lc.generators[0].is_async \
                    and any(self._callee(x, cls_stack) for x in ast.walk(lc.elt) if isinstance(x, (ast.Call, ast.Await))) \
                    and (isinstance(s, ast.Return) or (len(s.targets) == 1 and isinstance(s.targets[0], ast.Name))):
                gen = lc.generators[0]
                tn = set(x.id for x in ast.walk(gen.target) if isinstance(x, ast.Name))
                outside = set(x.id for x in ast.walk(fn) if isinstance(x, ast.Name) and not any(x is y for y in ast.walk(lc)))
                acc_clash = isinstance(s, ast.Assign) and any(isinstance(x, ast.Name) and x.id == s.targets[0].id for x in ast.walk(lc))
                if not (tn & outside) and not acc_clash:
                    if isinstance(s, ast.Return):
                        self.tmp += 1
                        acc = '_v%d' % self.tmp
                    else:
                        acc = s.targets[0].id
                    init = ast.copy_location(ast.Assign(targets=[ast.Name(id=acc, ctx=ast.Store())], value=ast.List(elts=[], ctx=ast.Load())), s)
                    app = ast.copy_location(ast.Expr(value=ast.Call(func=ast.Attribute(value=ast.Name(id=acc, ctx=ast.Load()), attr='append', ctx=ast.Load()),
                                                                    args=[lc.elt], keywords=[])), s)
                    inner = [app]
                    for cond in reversed(gen.ifs):
                        inner = [ast.copy_location(ast.If(test=cond, body=inner, orelse=[]), s)]
                    loop = ast.copy_location(ast.For(target=gen.target, iter=gen.iter, body=inner, orelse=[], type_comment=None), s)
                    for x in ast.walk(loop.target):
                        if isinstance(x, ast.Name):
                            x.ctx = ast.Store()
                    new_ = [init, loop]
                    if isinstance(s, ast.Return):
                        new_.append(ast.copy_location(ast.Return(value=ast.Name(id=acc, ctx=ast.Load())), s))
                    for x in new_:
                        ast.fix_missing_locations(x)
                    self.count += 1
                    out.extend(self.block(new_, fn, names | {acc} | tn, cls_stack))
                    continue
            # a helper call that is a direct argument of the statement's outermost call, with only call-free arguments before it:
            # its value is taken into a temporary first (same evaluation order), then treated as an assignment from the helper
            outer = getattr(s, 'value', None) if isinstance(s, (ast.Expr, ast.Assign, ast.Return)) else (s.exc if isinstance(s, ast.Raise) else None)
            if isinstance(outer, ast.Call) and not self._callee(outer, cls_stack) and _pure_expr(outer.func):
                for ai, a_ in enumerate(outer.args):
                    hit_ = self._callee(a_, cls_stack)
                    if hit_ and hit_[0].tail_ok and hit_[0].node is not fn and not isinstance(a_, ast.Await) and not hit_[0].is_async:
                        self.tmp += 1
                        nm = '_v%d' % self.tmp
                        pre = ast.copy_location(ast.Assign(targets=[ast.Name(id=nm, ctx=ast.Store())], value=a_), s)
                        outer.args[ai] = ast.copy_location(ast.Name(id=nm, ctx=ast.Load()), a_)
                        out.extend(self.block([pre], fn, names | {nm}, cls_stack))
                        break
                    if not _pure_expr(a_):
                        break
            # ... or an entry of the dict / list / tuple display that is the statement's value, all earlier entries call-free
            disp = getattr(s, 'value', None) if isinstance(s, (ast.Assign, ast.Return)) else None
            if isinstance(disp, (ast.Dict, ast.List, ast.Tuple)):
                seq = list(disp.values) if isinstance(disp, ast.Dict) else list(disp.elts)
                keys_ok = not isinstance(disp, ast.Dict) or all(k_ is not None and _pure_expr(k_) for k_ in disp.keys)
                for ai, a_ in enumerate(seq):
                    hit_ = self._callee(a_, cls_stack) if keys_ok else None
                    if hit_ and hit_[0].tail_ok and hit_[0].node is not fn and not isinstance(a_, ast.Await) and not hit_[0].is_async:
                        self.tmp += 1
                        nm = '_v%d' % self.tmp
                        pre = ast.copy_location(ast.Assign(targets=[ast.Name(id=nm, ctx=ast.Store())], value=a_), s)
                        ref = ast.copy_location(ast.Name(id=nm, ctx=ast.Load()), a_)
                        if isinstance(disp, ast.Dict):
                            disp.values[ai] = ref
                        else:
                            disp.elts[ai] = ref
                        out.extend(self.block([pre], fn, names | {nm}, cls_stack))
                        break
                    if not _pure_expr(a_):
                        break
            val = getattr(s, 'value', None) if isinstance(s, (ast.Expr, ast.Assign, ast.Return)) else None
            hit = self._callee(val, cls_stack) if val is not None else None
            if hit and not (hit[0].tail_ok or isinstance(s, ast.Return)):
                self.opaque.add(hit[0].node.name)
                hit = None
            if hit and hit[0].node is not fn and (not isinstance(val, ast.Await) or hit[0].is_async) and (isinstance(val, ast.Await) or not hit[0].is_async):
                h, call, bound = hit
                over = set()
                if isinstance(s, ast.Assign):
                    for t_ in s.targets:
                        for x_ in ast.walk(t_):
                            if isinstance(x_, ast.Name):
                                over.add(x_.id)
                b = self._bind(h, call, bound, names, over)
                if b is not None:
                    pre, hb = b
                    if isinstance(s, ast.Return):
                        # the helper's returns become the caller's, wherever they are; falling off the end returns None
                        new = pre + hb
                        if not _ends(hb):
                            new.append(ast.copy_location(ast.Return(value=ast.copy_location(ast.Constant(value=None), s)), s))
                    elif isinstance(s, ast.Expr):
                        new = pre + _tail(hb, lambda e, at: ([ast.copy_location(ast.Expr(value=e), at)] if e is not None and not _pure_expr(e) else []), s)
                    else:
                        tg = s.targets

                        def mk(e, at, tg=tg, made=getattr(s, '_inl', False)):
                            v = e if e is not None else ast.Constant(value=None)
                            na = ast.copy_location(ast.Assign(targets=[copy.deepcopy(t) for t in tg], value=v), at)
                            if made:
                                na._inl = True
                            return [na]
                        new = pre + _tail(hb, mk, s)
                    self.count += 1
                    out.extend(new or [ast.copy_location(ast.Pass(), s)])
                    continue
            out.append(s)
        return out

    def module(self, tree, mname=None):
        self.cur = mname
        for st in tree.body:
            if isinstance(st, (ast.FunctionDef, ast.AsyncFunctionDef)):
                self.function(st, [])
            elif isinstance(st, ast.ClassDef):
                for f in st.body:
                    if isinstance(f, (ast.FunctionDef, ast.AsyncFunctionDef)):
                        self.function(f, [st])
                        for g in ast.walk(f):
                            if g is not f and isinstance(g, (ast.FunctionDef, ast.AsyncFunctionDef)):
                                self.function(g, [st])
        ast.fix_missing_locations(tree)
        return tree


def _eval_order(e):
    """sub-expressions in the order in which their evaluation completes"""
    if isinstance(e, ast.Call):
        for x in _eval_order(e.func):
            yield x
        for a_ in e.args:
            for x in _eval_order(a_):
                yield x
        for k_ in e.keywords:
            for x in _eval_order(k_.value):
                yield x
        yield e
    elif isinstance(e, ast.Dict):
        for k_, v_ in zip(e.keys, e.values):
            if k_ is not None:
                for x in _eval_order(k_):
                    yield x
            for x in _eval_order(v_):
                yield x
        yield e
    elif isinstance(e, (ast.Lambda, ast.ListComp, ast.SetComp, ast.DictComp, ast.GeneratorExp, ast.IfExp, ast.BoolOp)):
        if isinstance(e, (ast.IfExp, ast.BoolOp)):
            first = e.test if isinstance(e, ast.IfExp) else e.values[0]
            for x in _eval_order(first):
                yield x
        yield e
    elif isinstance(e, ast.Compare) and len(e.ops) > 1:
        for x in _eval_order(e.left):
            yield x
        yield e
    else:
        for ch in ast.iter_child_nodes(e):
            if isinstance(ch, ast.expr):
                for x in _eval_order(ch):
                    yield x
        yield e


def _is_bool(e):
    """a bool by construction: not X, a comparison, and/or of such"""
    if isinstance(e, ast.UnaryOp) and isinstance(e.op, ast.Not):
        return True
    if isinstance(e, ast.Compare):
        return True
    if isinstance(e, ast.BoolOp):
        return all(_is_bool(v) for v in e.values)
    return isinstance(e, ast.Constant) and isinstance(e.value, bool)


def _pure_expr(e):
    return not any(isinstance(n, (ast.Call, ast.Await, ast.Yield, ast.YieldFrom, ast.NamedExpr)) for n in ast.walk(e))


def _selfchain(a):
    while isinstance(a, ast.Attribute):
        a = a.value
    return isinstance(a, ast.Name) and a.id == 'self'


def _modconst(a):
    """signal.SIGHUP, select.POLLIN, errno.EIO ...: an attribute chain rooted at a module-like name (not self / cls)"""
    while isinstance(a, ast.Attribute):
        a = a.value
    return isinstance(a, ast.Name) and a.id not in ('self', 'cls') and a.id in ('signal', 'select', 'errno', 'os', 'sys', 're', 'socket', 'time', 'types', 'codecs', 'subprocess')


def inline_all(trees, skip=()):
    n_spec = specialise_new_params(trees, skip)
    inl = Inliner(dict((n, t) for n, t in trees.items() if n not in skip))
    for n, t in trees.items():
        if n not in skip:
            inl.module(t, n)
    if inl.count:
        # a helper every call of which was written back into its caller is no longer part of the program the rules look at
        for h in list(inl.all_helpers()):
            name = h.node.name
            if not h.ok or not _is_private(name):
                continue          # (a NEW public function is read as a helper where it is called, but it stays: it may be API)
            mangled = ('_%s%s' % (h.cls.name.lstrip('_'), name)) if (h.cls is not None and name.startswith('__')) else name
            refs = 0
            for n, t in trees.items():
                if n in skip or n != h.module and (h.cls is None or name not in inl.cls_helpers or inl.cls_helpers[name] is not h):
                    continue
                for x in ast.walk(t):
                    if isinstance(x, ast.Attribute) and x.attr in (name, mangled):
                        refs += 1
                    elif isinstance(x, ast.Name) and x.id in (name, mangled) and isinstance(x.ctx, ast.Load):
                        refs += 1
                    elif isinstance(x, ast.Constant) and x.value in (name, mangled):
                        refs += 1          # getattr(self, '_helper') and the like
            if refs == 0:
                owner = h.cls.body if h.cls is not None else trees[h.module].body
                if h.node in owner:
                    owner.remove(h.node)
                    if not owner:
                        owner.append(ast.Pass())
    # helpers that are still called somewhere: the rules cannot see through those calls
    remaining = set()
    if True:
        for h in inl.all_helpers():
            name = h.node.name
            if [d for d in h.node.decorator_list if ast.unparse(d) != 'staticmethod']:
                continue          # a decorated helper (a cache, a context manager) is not an extracted piece of its caller
            for n, t in trees.items():
                if n in skip or (h.cls is None and n != h.module):
                    continue
                for x in ast.walk(t):
                    if isinstance(x, ast.Call) and ((isinstance(x.func, ast.Attribute) and x.func.attr == name) or (isinstance(x.func, ast.Name) and x.func.id == name)):
                        remaining.add(name)
    inline_all.opaque = remaining
    return inl.count + n_spec

"""Whole-program call graph over the resolved program (dynamic dispatch from a
base-class context returns every overriding target)."""
import ast

from .astx import calls_in
from .effects import resolve_call


def callees(repo, fi, dynamic=True):
    out = []
    for k in calls_in(fi.node):
        for t in resolve_call(repo, fi, k, dynamic=dynamic):
            out.append((k, t))
    return out


def reach(repo, entries, dynamic=True, stop=None):
    """{FuncInfo: chain (list of qualnames from an entry)} for every function
    reachable from *entries* (FuncInfo list)."""
    seen = {}
    work = []
    for e in entries:
        seen[e] = [e.qual]
        work.append(e)
    while work:
        f = work.pop()
        if stop is not None and stop(f):
            continue
        for k, t in callees(repo, f, dynamic):
            if t not in seen:
                seen[t] = seen[f] + [t.qual]
                work.append(t)
        # nested closures defined in f are reachable when called by name (handled by resolve_call)
    return seen


def unresolved_calls(repo, fi):
    out = []
    for k in calls_in(fi.node):
        if not resolve_call(repo, fi, k):
            out.append(k)
    return out

"""Static-analysis engine for the pexpect properties (stdlib only).

Nothing in this package imports or executes pexpect: every verdict is computed
from the source text of /repo's working tree on each run.
"""

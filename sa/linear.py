"""Linear normal forms of integer expressions (slice bounds, offsets, sizes).

An expression is reduced to  c0 + sum(ci * atom_i)  where atoms are canonical
source texts (``len(self.spawn._before.getvalue())``, ``self.searcher.start``).
Single-assignment local temporaries are inlined first, local aliases of access
paths are expanded, and ``X.tell()`` of a stream positioned at its end is the
same atom as ``len(X.getvalue())``.  Equality and sign questions are decided
from coefficients and declared atom lower bounds -- there is no solver.
"""
import ast

from .astx import aliases_of, dotted, src


def clone(node):
    """Structural copy of an AST subtree that does not follow the `_parent`
    back-links (copy.deepcopy would copy the whole module through them)."""
    if isinstance(node, ast.AST):
        new = node.__class__()
        for name, val in ast.iter_fields(node):
            setattr(new, name, clone(val))
        for a in ('lineno', 'col_offset', 'end_lineno', 'end_col_offset'):
            if hasattr(node, a):
                setattr(new, a, getattr(node, a))
        return new
    if isinstance(node, list):
        return [clone(x) for x in node]
    return node


class Lin(object):
    def __init__(self, const=0, terms=None):
        self.const = const
        self.terms = dict((k, v) for k, v in (terms or {}).items() if v != 0)

    def __add__(self, o):
        t = dict(self.terms)
        for k, v in o.terms.items():
            t[k] = t.get(k, 0) + v
        return Lin(self.const + o.const, t)

    def scale(self, k):
        return Lin(self.const * k, dict((a, v * k) for a, v in self.terms.items()))

    def __sub__(self, o):
        return self + o.scale(-1)

    def __eq__(self, o):
        return isinstance(o, Lin) and self.const == o.const and self.terms == o.terms

    def __ne__(self, o):
        return not self.__eq__(o)

    def is_const(self):
        return not self.terms

    def __repr__(self):
        parts = []
        for a in sorted(self.terms):
            c = self.terms[a]
            parts.append(('%+d*' % c if c not in (1, -1) else ('+' if c == 1 else '-')) + a)
        if self.const or not parts:
            parts.append('%+d' % self.const)
        return ' '.join(parts)

    def lower_bound(self, lows):
        """Greatest provable lower bound given atom lower bounds *lows*
        (atom -> int); None when some atom with a negative coefficient has no
        upper bound or an atom with positive coefficient no lower bound."""
        lb = self.const
        for a, c in self.terms.items():
            if c > 0:
                lo = lows.get(a)
                if lo is None:
                    lo = 0 if a.startswith('len(') or a.startswith('max(0,') else None
                if lo is None:
                    return None
                lb += c * lo
            else:
                return None
        return lb


class Expander(ast.NodeTransformer):
    """Inline single-assignment locals and expand aliases."""

    def __init__(self, fi, depth=6, keep=(), stale_ok=False):
        self.al = aliases_of(fi)
        self.depth = depth
        self.keep = set(keep)
        # stale_ok: also write out locals that may be read after their expression changed (stale.py) -- for rules that mean "the value at
        # the binding" and check the order of events themselves
        self.stale_ok = stale_ok

    def visit_Name(self, node):
        sa_ = self.al.single_assign
        if self.stale_ok and node.id in getattr(self.al, 'stale_single', {}):
            sa_ = self.al.stale_single
        if isinstance(node.ctx, ast.Load) and node.id in sa_ \
                and node.id not in self.keep and self.depth > 0:
            val = clone(sa_[node.id])
            sub = Expander.__new__(Expander)
            sub.al = self.al
            sub.depth = self.depth - 1
            sub.keep = self.keep | {node.id}
            sub.stale_ok = self.stale_ok
            return sub.visit(val)
        return node


def ctext(expr, fi, keep=(), stale_ok=False):
    """Canonical text of *expr* in function *fi* (aliases and temporaries
    expanded)."""
    e = Expander(fi, keep=keep, stale_ok=stale_ok).visit(clone(expr))
    return ' '.join(src(e).split())


def _tell_to_len(text):
    # X.tell()  ==  len(X.getvalue())  for a stream positioned at its end
    if text.endswith('.tell()'):
        return 'len(%s.getvalue())' % text[:-len('.tell()')]
    return text


def lin(expr, fi, keep=(), stale_ok=False):
    """Linear form of an integer expression, or None."""
    e = Expander(fi, keep=keep, stale_ok=stale_ok).visit(clone(expr))
    return _lin(e)


def _atom(e):
    t = ' '.join(src(e).split())
    t = _tell_to_len(t)
    return Lin(0, {t: 1})


def _lin(e):
    if isinstance(e, ast.Constant):
        if isinstance(e.value, bool) or not isinstance(e.value, int):
            return None
        return Lin(e.value)
    if isinstance(e, ast.UnaryOp):
        if isinstance(e.op, ast.USub):
            v = _lin(e.operand)
            return None if v is None else v.scale(-1)
        if isinstance(e.op, ast.UAdd):
            return _lin(e.operand)
        return None
    if isinstance(e, ast.BinOp):
        a, b = _lin(e.left), _lin(e.right)
        if isinstance(e.op, ast.Add):
            return None if a is None or b is None else a + b
        if isinstance(e.op, ast.Sub):
            return None if a is None or b is None else a - b
        if isinstance(e.op, ast.Mult):
            if a is not None and b is not None:
                if a.is_const():
                    return b.scale(a.const)
                if b.is_const():
                    return a.scale(b.const)
            return None
        return None
    if isinstance(e, ast.Call):
        f = dotted(e.func)
        if f == 'len' and len(e.args) == 1 and not e.keywords:
            return _atom(e)
        if f == 'max' and len(e.args) == 2 and not e.keywords:
            a, b = _lin(e.args[0]), _lin(e.args[1])
            if a is not None and b is not None:
                if a.is_const() and a.const == 0:
                    return Lin(0, {'max(0,%r)' % (b,): 1})
                if b.is_const() and b.const == 0:
                    return Lin(0, {'max(0,%r)' % (a,): 1})
            return None
        if f is not None and not e.args and not e.keywords:
            return _atom(e)      # X.tell(), time.time(): opaque zero-argument calls
        return None
    if isinstance(e, (ast.Name, ast.Attribute)):
        return _atom(e)
    return None


def slice_bounds(sub):
    """(lower, upper, step) expression nodes of ``x[a:b]`` (None when absent);
    None if *sub* is not a simple slice subscript."""
    if not isinstance(sub, ast.Subscript) or not isinstance(sub.slice, ast.Slice):
        return None
    s = sub.slice
    return s.lower, s.upper, s.step

"""Flow-sensitive label propagation over one function's CFG (may-analysis:
each variable carries the *set* of labels it may have; join = union).

Labels used by the rules:
  raw     bytes as delivered by the OS / peer, not yet through the decoder
  text    output of the instance's incremental decoder (API string type)
  sendstr coerced send string (API string type on the send side)
  exc     an exception object
  other   anything else

A rule supplies `classify_call(call, argument label sets) -> set or None` and
reads the labels at the sinks it is interested in.
"""
import ast

from .astx import assigned_targets, dotted, iter_nodes
from .lib import node_roots


class Labels(object):
    def __init__(self, fi, classify_call, param_labels=None, attr_labels=None):
        self.fi = fi
        self.g = fi.cfg
        self.classify_call = classify_call
        self.param_labels = param_labels or {}
        self.attr_labels = attr_labels or {}
        self.inn = {}
        self.out = {}

    def expr_labels(self, e, env):
        if e is None:
            return frozenset()
        if isinstance(e, ast.Name):
            return env.get(e.id, frozenset(['other']))
        if isinstance(e, ast.Constant):
            return frozenset(['const'])
        if isinstance(e, ast.Attribute):
            d = dotted(e)
            if d in self.attr_labels:
                return frozenset(self.attr_labels[d])
            return frozenset(['other'])
        if isinstance(e, ast.Subscript):
            return self.expr_labels(e.value, env)
        if isinstance(e, ast.BinOp):
            a = self.expr_labels(e.left, env) | self.expr_labels(e.right, env)
            a = a - {'const'} or a
            return frozenset(a)
        if isinstance(e, ast.IfExp):
            return self.expr_labels(e.body, env) | self.expr_labels(e.orelse, env)
        if isinstance(e, ast.Call):
            args = [self.expr_labels(a, env) for a in e.args]
            r = self.classify_call(e, args, env, self)
            if r is not None:
                return frozenset(r)
            return frozenset(['other'])
        if isinstance(e, (ast.Tuple, ast.List)):
            out = frozenset()
            for x in e.elts:
                out |= self.expr_labels(x, env)
            return out
        if isinstance(e, ast.Await):
            return self.expr_labels(e.value, env)
        return frozenset(['other'])

    def transfer(self, n, env):
        a = n.ast
        env = dict(env)
        if n.kind == 'stmt' and isinstance(a, ast.Assign):
            if len(a.targets) == 1 and isinstance(a.targets[0], ast.Tuple) and isinstance(a.value, ast.Tuple) \
                    and len(a.targets[0].elts) == len(a.value.elts):
                vals = [self.expr_labels(v, env) for v in a.value.elts]
                for t, v in zip(a.targets[0].elts, vals):
                    if isinstance(t, ast.Name):
                        env[t.id] = v
            else:
                v = self.expr_labels(a.value, env)
                for t in assigned_targets(a):
                    if isinstance(t, ast.Name):
                        env[t.id] = v
        elif n.kind == 'stmt' and isinstance(a, ast.AugAssign) and isinstance(a.target, ast.Name):
            v = self.expr_labels(a.value, env) | env.get(a.target.id, frozenset())
            env[a.target.id] = frozenset(v - {'const'} or v)
        elif n.kind == 'for':
            v = self.expr_labels(a.iter, env)
            for t in assigned_targets(a):
                if isinstance(t, ast.Name):
                    env[t.id] = v
        elif n.kind == 'except' and a.name:
            env[a.name] = frozenset(['exc'])
        elif n.kind == 'with':
            for i in a.items:
                if isinstance(i.optional_vars, ast.Name):
                    env[i.optional_vars.id] = frozenset(['other'])
        return env

    def run(self):
        g = self.g
        init = {}
        for p in self.fi.params:
            init[p] = frozenset(self.param_labels.get(p, ['other']))
        self.inn = {g.entry: init}
        work = [g.entry]
        it = 0
        while work:
            it += 1
            if it > 20000:
                break
            n = work.pop()
            env = self.inn.get(n, {})
            out = self.transfer(n, env)
            self.out[n] = out
            for s, lab in n.succ:
                src_env = env if lab == 'exc' else out
                cur = self.inn.get(s)
                if cur is None:
                    self.inn[s] = dict(src_env)
                    work.append(s)
                else:
                    changed = False
                    for k, v in src_env.items():
                        nv = cur.get(k, frozenset()) | v
                        if nv != cur.get(k):
                            cur[k] = nv
                            changed = True
                    if changed and s not in work:
                        work.append(s)
        return self

    def labels_at(self, n, expr):
        """labels of *expr* evaluated at CFG node *n* (state before the node)"""
        return self.expr_labels(expr, self.inn.get(n, {}))

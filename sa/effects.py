"""Call resolution and effect summaries closed over the call graph."""
import ast

from .astx import calls_in, dotted, aliases_of, assigned_targets, iter_nodes, norm
from . import stores

# receiver role table: canonical access path (after alias expansion) -> class
# names whose methods the call may reach.  Frozen from reading the package.
ROLE_OF_PATH = {
    'self.spawn': 'SpawnBase', 'spawn': 'SpawnBase', 'self.expecter.spawn': 'SpawnBase',
    'expecter.spawn': 'SpawnBase', 'repl.child': 'SpawnBase', 'self.child': 'SpawnBase',
    'child': 'SpawnBase',
    'self.searcher': 'SEARCHER', 'searcher': 'SEARCHER',
    'self.expecter': 'Expecter', 'expecter': 'Expecter', 'exp': 'Expecter',
    'self.ptyproc': 'PtyProcess', 'ptyproc': 'PtyProcess',
    'self.state': 'FSM',
    'fsm.memory[0]': 'screen', 'screen': 'screen',
    'repl': 'REPLWrapper',
}


def _class_targets(repo, clsname, meth, dynamic=True):
    out = []
    if clsname == 'SEARCHER':
        for cn in ('searcher_string', 'searcher_re'):
            c = repo.classes.get(cn)
            if c and meth in c.methods:
                out.append(c.methods[meth])
        return out
    c = repo.classes.get(clsname)
    if c is None:
        return out
    if dynamic:
        subs = repo.subclasses(clsname)
        for s in subs:
            m = repo.resolve_method(s, meth)
            if m is not None and m not in out:
                out.append(m)
    else:
        m = repo.resolve_method(c, meth)
        if m is not None:
            out.append(m)
    return out


def resolve_call(repo, fi, call, dynamic=True):
    """Possible callee units of *call* made inside *fi* ([] when unknown or
    outside the package)."""
    func = call.func
    al = aliases_of(fi)
    # str(x) -> x.__str__
    if isinstance(func, ast.Name) and func.id == 'str' and len(call.args) == 1:
        p = al.canon(call.args[0])
        role = _role(repo, fi, p)
        if role:
            return _class_targets(repo, role, '__str__', dynamic)
        return []
    if isinstance(func, ast.Name):
        # closure, module function, imported function
        f = fi
        while f is not None:
            if func.id in f.nested:
                return list(f.nested[func.id])
            f = f.parent
        q = '%s:%s' % (fi.module.name, func.id)
        if q in repo.funcs:
            return [repo.funcs[q]]
        for m in repo.modules.values():
            q = '%s:%s' % (m.name, func.id)
            if q in repo.funcs and m.name != 'ptyprocess' and _imports_name(fi.module, func.id):
                return [repo.funcs[q]]
        if func.id in repo.classes and _imports_name(fi.module, func.id) or \
                (func.id in repo.classes and repo.classes[func.id].module is fi.module):
            c = repo.classes[func.id]
            m = repo.resolve_method(c, '__init__')
            return [m] if m is not None else []
        return []
    if not isinstance(func, ast.Attribute):
        return []
    meth = func.attr
    recv = func.value
    # super(C, self).m / super().m
    if isinstance(recv, ast.Call) and isinstance(recv.func, ast.Name) and recv.func.id == 'super':
        if fi.cls is None:
            return []
        after = fi.cls.name
        if recv.args and isinstance(recv.args[0], ast.Name):
            after = recv.args[0].id
        # static: the next class after `after` in the MRO of the defining class
        m = repo.resolve_method(fi.cls, meth, after=after)
        return [m] if m is not None else []
    p = al.canon(recv)
    if p is None:
        return []
    if p == 'self' and fi.cls is not None:
        meth_m = _mangle(meth)
        if dynamic:
            outs = []
            for s in repo.subclasses(fi.cls.name) or [fi.cls]:
                m = repo.resolve_method(s, meth_m)
                if m is not None and m not in outs:
                    outs.append(m)
            return outs
        m = repo.resolve_method(fi.cls, meth_m)
        return [m] if m is not None else []
    # Class.m(self, ...)
    if p in repo.classes and '.' not in p:
        m = repo.resolve_method(repo.classes[p], meth)
        return [m] if m is not None else []
    if p.endswith('.screen') and 'screen.screen' == p:
        m = repo.resolve_method(repo.classes['screen'], meth)
        return [m] if m is not None else []
    role = _role(repo, fi, p)
    if role:
        return _class_targets(repo, role, meth, dynamic)
    # a local bound once to `ClassName(...)`: calls go to that class
    if isinstance(recv, ast.Name):
        v = al.single_assign.get(recv.id)
        if isinstance(v, ast.Call):
            cn = (dotted(v.func) or '').split('.')[-1]
            if cn in repo.classes:
                return _class_targets(repo, cn, meth, dynamic=False)
    return []


def _mangle(name):
    return name


def _role(repo, fi, path):
    if path is None:
        return None
    if path == 'self' and fi.cls is not None:
        return fi.cls.name
    if path in ROLE_OF_PATH:
        # `screen`/`spawn`/`child` etc. as bare names only count when they are
        # locals/params of the unit (not modules)
        return ROLE_OF_PATH[path]
    return None


def _imports_name(module, name):
    for st in ast.walk(module.tree):
        if isinstance(st, ast.ImportFrom):
            for a in st.names:
                if (a.asname or a.name) == name:
                    return True
    return False


def direct_store_writes(fi):
    out = []
    for n in iter_nodes(fi.node):
        if isinstance(n, (ast.Assign, ast.AugAssign)):
            for t in assigned_targets(n):
                s = stores.store_attr(t)
                if s:
                    out.append((s, n))
                elif isinstance(t, ast.Attribute) and t.attr == 'buffer':
                    out.append(('_buffer', n))
        sc = stores.store_call(n, fi) if isinstance(n, ast.Call) else None
        if sc and sc[1] in ('write', 'truncate', 'writelines', 'seek'):
            out.append((sc[0], n))
    return out


def store_writes_closure(repo, fi, _seen=None, _chain=None):
    """(set of stores written transitively, witness call chain)"""
    seen = _seen if _seen is not None else set()
    chain = (_chain or []) + [fi.qual]
    if fi.qual in seen:
        return set(), chain
    seen.add(fi.qual)
    w = set(s for s, _ in direct_store_writes(fi))
    if w:
        return w, chain
    for call in calls_in(fi.node):
        for tgt in resolve_call(repo, fi, call):
            if tgt.module.name == 'ptyprocess':
                continue
            ww, ch = store_writes_closure(repo, tgt, seen, chain)
            if ww:
                return ww, ch
    return set(), chain


def self_attr_writes(fi, base='self'):
    """Attributes of *base* written directly in the unit: rebinds, augmented
    assignments, subscript / slice stores, mutator calls."""
    out = {}
    MUT = ('append', 'extend', 'insert', 'pop', 'remove', 'clear', 'sort', 'reverse', 'update',
           'write', 'seek', 'put', 'setdefault', 'popitem', 'add', 'discard')
    al = aliases_of(fi)

    def field_of(root):
        # `self.w`, or a local that holds the object of a field (`w = self.w`): mutating it mutates the field's object
        if isinstance(root, ast.Attribute) and isinstance(root.value, ast.Name) and root.value.id == base:
            return root.attr
        if isinstance(root, ast.Name):
            d = al.map.get(root.id) or getattr(al, 'stale_map', {}).get(root.id)
            if d and d.startswith(base + '.') and d.count('.') == 1:
                return d.split('.')[1]
        return None
    for n in iter_nodes(fi.node):
        if isinstance(n, (ast.Assign, ast.AugAssign, ast.AnnAssign, ast.For, ast.With, ast.Delete)):
            tgs = assigned_targets(n) if not isinstance(n, ast.Delete) else n.targets
            for t in tgs:
                root = t
                sub = False
                while isinstance(root, ast.Subscript):
                    root = root.value
                    sub = True
                a_ = field_of(root) if (sub or isinstance(root, ast.Attribute)) else None
                if a_:
                    out.setdefault(a_, []).append(n)
        elif isinstance(n, ast.Call) and isinstance(n.func, ast.Attribute) and n.func.attr in MUT:
            root = n.func.value
            while isinstance(root, ast.Subscript):
                root = root.value
            a_ = field_of(root)
            if a_:
                out.setdefault(a_, []).append(n)
    return out


def attr_writes_closure(repo, fi, base='self', _seen=None):
    """Transitive write set of attributes of self through self.m() calls and
    calls on `screen`-role receivers inside the same class hierarchy.
    Returns dict attr -> witness chain (list of qualnames)."""
    seen = _seen if _seen is not None else {}
    if fi.qual in seen:
        return seen[fi.qual]
    res = {}
    seen[fi.qual] = res
    for a, nodes in self_attr_writes(fi, base).items():
        res.setdefault(a, [fi.qual])
    for call in calls_in(fi.node):
        if not isinstance(call.func, ast.Attribute):
            continue
        recv = call.func.value
        if isinstance(recv, ast.Name) and recv.id == base:
            tg = resolve_call(repo, fi, call, dynamic=False)
        elif isinstance(recv, ast.Call) and isinstance(recv.func, ast.Name) and recv.func.id == 'super':
            tg = resolve_call(repo, fi, call, dynamic=False)
        else:
            continue
        for t in tg:
            sub = attr_writes_closure(repo, t, 'self', seen)
            for a, ch in sub.items():
                res.setdefault(a, [fi.qual] + ch)
    return res


IO_CALLS = {
    'open', 'print', 'os.read', 'os.write', 'os.close', 'os.open', 'os.kill', 'os.waitpid',
    'os.system', 'os.popen', 'os.remove', 'os.unlink', 'os.mkdir', 'os.makedirs', 'os.rename',
    'time.sleep', 'subprocess.Popen', 'subprocess.call', 'subprocess.run', 'sys.stdout.write',
    'sys.stderr.write', 'input', 'exec', 'eval', 'select.select', 'socket.socket',
}


def io_calls(fi):
    out = []
    for call in calls_in(fi.node):
        d = dotted(call.func)
        if d in IO_CALLS or (d and (d.startswith('os.') and d not in ('os.path.join', 'os.linesep')
                                    and not d.startswith('os.path.'))):
            out.append(call)
    return out

"""Constant evaluation of string expressions found in the source (prompt tables,
pattern arrays).  Only constants are ever evaluated -- never code of the
package: +, constant slices / indexing, % and .format with constant operands."""
import ast


def const_val(e, env=None):
    env = env or {}
    if isinstance(e, ast.Constant):
        return e.value
    if isinstance(e, ast.Name):
        return env.get(e.id)
    if isinstance(e, ast.Attribute) and isinstance(e.value, ast.Name) and e.value.id == 'self':
        return env.get('self.' + e.attr)
    if isinstance(e, ast.JoinedStr):
        out = ''
        for v in e.values:
            if isinstance(v, ast.Constant):
                out += str(v.value)
            elif isinstance(v, ast.FormattedValue):
                x = const_val(v.value, env)
                if x is None:
                    return None
                out += repr(x) if v.conversion == 114 else str(x)
        return out
    if isinstance(e, ast.BinOp):
        a, b = const_val(e.left, env), const_val(e.right, env)
        if a is None or b is None:
            return None
        try:
            if isinstance(e.op, ast.Add):
                return a + b
            if isinstance(e.op, ast.Mod):
                return a % b
            if isinstance(e.op, ast.Mult):
                return a * b
        except Exception:
            return None
        return None
    if isinstance(e, ast.Tuple):
        vals = [const_val(x, env) for x in e.elts]
        return None if any(v is None for v in vals) else tuple(vals)
    if isinstance(e, ast.Subscript):
        base = const_val(e.value, env)
        if base is None:
            return None
        s = e.slice
        try:
            if isinstance(s, ast.Slice):
                lo = const_val(s.lower, env) if s.lower is not None else None
                hi = const_val(s.upper, env) if s.upper is not None else None
                if (s.lower is not None and lo is None) or (s.upper is not None and hi is None):
                    return None
                return base[lo:hi]
            i = const_val(s, env)
            return None if i is None else base[i]
        except Exception:
            return None
    if isinstance(e, ast.UnaryOp) and isinstance(e.op, ast.USub):
        v = const_val(e.operand, env)
        return None if v is None else -v
    if isinstance(e, ast.Call) and isinstance(e.func, ast.Attribute) and e.func.attr == 'format' and not e.keywords:
        base = const_val(e.func.value, env)
        args = [const_val(a, env) for a in e.args]
        if base is None or any(a is None for a in args):
            return None
        try:
            return base.format(*args)
        except Exception:
            return None
    return None


def const_str(e, env=None):
    v = const_val(e, env)
    return v if isinstance(v, str) else None

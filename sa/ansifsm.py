"""Extraction of the ANSI terminal's transition table and action summaries from
the source, and the abstract stack-depth fixpoint over the extracted automaton.
"""
import ast

from .astx import dotted, norm, src, iter_nodes, calls_in
from .loader import AnalysisError
from .consteval import const_val

DIGITS = '0123456789'


class Table(object):
    def __init__(self):
        self.exact = {}      # (sym, state) -> (action, next, lineno)
        self.any = {}        # state -> (action, next, lineno)
        self.default = None
        self.initial = None
        self.calls = 0

    def states(self):
        s = set([self.initial])
        for (sym, st), (a, nx, _) in self.exact.items():
            s.add(st)
            s.add(nx)
        for st, (a, nx, _) in self.any.items():
            s.add(st)
            s.add(nx)
        if self.default:
            s.add(self.default[1])
        return s

    def symbols(self, state):
        return sorted(sym for (sym, st) in self.exact if st == state)

    def lookup(self, sym, state):
        """exact > any > default (the precedence FSM.get_transition implements,
        checked separately); sym None = a character with no exact entry"""
        if sym is not None and (sym, state) in self.exact:
            return self.exact[(sym, state)]
        if state in self.any:
            return self.any[state]
        return self.default


def action_name(e):
    if e is None or (isinstance(e, ast.Constant) and e.value is None):
        return None
    d = dotted(e)
    if d is None:
        raise AnalysisError('ANSI table: action %s is not a plain name' % norm(e))
    return d


def extract_table(fi):
    """fi = ANSI.__init__"""
    t = Table()
    env = {'string.digits': DIGITS}
    for st in fi.node.body:
        for k in ([st.value] if isinstance(st, ast.Expr) and isinstance(st.value, ast.Call) else []):
            d = dotted(k.func) or ''
            if not d.startswith('self.state.'):
                continue
            m = d.split('.')[-1]
            args = list(k.args)
            kw = dict((x.arg, x.value) for x in k.keywords)

            def arg(i, name):
                if i < len(args):
                    return args[i]
                return kw.get(name)
            t.calls += 1
            if m == 'set_default_transition':
                t.default = (action_name(arg(0, 'action')), const_val(arg(1, 'next_state')), k.lineno)
            elif m == 'add_transition_any':
                stt = const_val(arg(0, 'state'))
                nx = const_val(arg(2, 'next_state')) if arg(2, 'next_state') is not None else stt
                t.any[stt] = (action_name(arg(1, 'action')), nx if nx is not None else stt, k.lineno)
            elif m in ('add_transition', 'add_transition_list'):
                syme = arg(0, 'input_symbol' if m == 'add_transition' else 'list_input_symbols')
                syms = const_val(syme, {})
                if syms is None and dotted(syme) in env:
                    syms = env[dotted(syme)]
                if syms is None:
                    raise AnalysisError('ANSI table: symbols %s are not constant' % norm(syme))
                stt = const_val(arg(1, 'state'))
                nx = const_val(arg(3, 'next_state')) if arg(3, 'next_state') is not None else stt
                act = action_name(arg(2, 'action'))
                if stt is None:
                    raise AnalysisError('ANSI table: state of %s is not constant' % norm(k))
                for sym in ([syms] if m == 'add_transition' else list(syms)):
                    t.exact[(sym, stt)] = (act, nx if nx is not None else stt, k.lineno)
            else:
                raise AnalysisError('ANSI table: unknown FSM builder call %s' % m)
        if isinstance(st, ast.Assign) and isinstance(st.value, ast.Call) and (dotted(st.value.func) or '').endswith('FSM'):
            k = st.value
            t.initial = const_val(k.args[0]) if k.args else None
            t.memory_init = norm(k.args[1]) if len(k.args) > 1 else None
    return t


# ---- action summaries: operations on fsm.memory in source order

def summarise_action(fi, fsm_param=None):
    """list of ops: ('PUSH', tag) | ('POP', as_int) | ('RESET',) | ('READ0',)"""
    p = fsm_param or fi.params[-1]
    ops = []
    io = []

    def is_mem(e):
        return isinstance(e, ast.Attribute) and e.attr == 'memory' and isinstance(e.value, ast.Name) and e.value.id == p
    popped = {}

    def visit(node, in_branch):
        for n in ast.iter_child_nodes(node):
            if isinstance(n, (ast.If, ast.While, ast.For, ast.Try)):
                visit(n, True)
                continue
            visit(n, in_branch)
            if isinstance(n, ast.Call) and isinstance(n.func, ast.Attribute) and is_mem(n.func.value):
                if in_branch:
                    raise AnalysisError('%s: stack operation under a condition (not modelled)' % fi.qual)
                if n.func.attr == 'pop' and not n.args:
                    par = getattr(n, '_parent', None)
                    as_int = isinstance(par, ast.Call) and dotted(par.func) == 'int'
                    ops.append(['POP', as_int, n.lineno])
                    # remember which variable holds the popped value
                    anc = n
                    while anc is not None and not isinstance(anc, ast.Assign):
                        anc = getattr(anc, '_parent', None)
                    if isinstance(anc, ast.Assign) and isinstance(anc.targets[0], ast.Name) and not as_int:
                        popped[anc.targets[0].id] = len(ops) - 1
                elif n.func.attr == 'append' and len(n.args) == 1:
                    a = n.args[0]
                    if isinstance(a, ast.Attribute) and a.attr == 'input_symbol':
                        ops.append(['PUSH', 'sym', n.lineno])
                    elif isinstance(a, ast.Name):
                        ops.append(['PUSH', 'var:' + a.id, n.lineno])
                    elif isinstance(a, ast.BinOp) and isinstance(a.op, ast.Add) and isinstance(a.left, ast.Name) and a.left.id in popped \
                            and isinstance(a.right, ast.Attribute) and a.right.attr == 'input_symbol':
                        ops.append(['PUSH', 'concat', n.lineno])          # memory.append(ns + fsm.input_symbol): the number continued in place
                    else:
                        ops.append(['PUSH', 'other', n.lineno])
                else:
                    raise AnalysisError('%s: unknown stack operation %s' % (fi.qual, norm(n)))
            elif isinstance(n, ast.Assign) and any(is_mem(t) for t in n.targets):
                if in_branch:
                    raise AnalysisError('%s: stack reset under a condition' % fi.qual)
                v = n.value
                if isinstance(v, ast.List) and len(v.elts) == 1:
                    ops.append(['RESET', norm(v.elts[0]), n.lineno])
                else:
                    raise AnalysisError('%s: memory assigned %s' % (fi.qual, norm(v)))
            elif isinstance(n, ast.Subscript) and is_mem(n.value):
                if isinstance(n.slice, ast.Constant) and n.slice.value == 0:
                    ops.append(['READ0', None, n.lineno])
                else:
                    raise AnalysisError('%s: memory[%s] not modelled' % (fi.qual, norm(n.slice)))
    visit(fi.node, False)
    # a variable built as popped + input_symbol and pushed back is a number continuation
    concat = {}
    for n in iter_nodes(fi.node):
        if isinstance(n, ast.Assign) and isinstance(n.targets[0], ast.Name) and isinstance(n.value, ast.BinOp) and isinstance(n.value.op, ast.Add):
            l, r = n.value.left, n.value.right
            if isinstance(l, ast.Name) and l.id in popped and isinstance(r, ast.Attribute) and r.attr == 'input_symbol':
                concat[n.targets[0].id] = l.id
    for op in ops:
        if op[0] == 'PUSH' and op[1].startswith('var:'):
            v = op[1][4:]
            if v in concat or v in popped:
                op[1] = 'concat'
            else:
                op[1] = 'other'
    return [tuple(o) for o in ops]


def early_exit_imbalance(fi, fsm_param=None):
    """An action is summarised as ONE sequence of stack operations.  A `return` / `raise` under a condition that leaves the action between
    two of them makes the effect depend on the condition: list of (lineno, net effect of the early path, net effect of the full path) for
    every conditional exit after which stack operations still follow in source order.  The next state of the automaton is fixed by the
    transition table, so an action whose net effect on the parameter stack differs between its paths leaves the stack out of step."""
    p = fsm_param or fi.params[-1]

    def is_mem(e):
        return isinstance(e, ast.Attribute) and e.attr == 'memory' and isinstance(e.value, ast.Name) and e.value.id == p
    events = []          # ('op', +1 / -1 / 'reset') and ('exit', lineno) in source order

    def visit(node, in_branch):
        for n in ast.iter_child_nodes(node):
            if isinstance(n, (ast.If, ast.While, ast.For, ast.Try)):
                visit(n, True)
                continue
            if isinstance(n, (ast.Return, ast.Raise)) and in_branch:
                events.append(('exit', n.lineno))
            visit(n, in_branch)
            if isinstance(n, ast.Call) and isinstance(n.func, ast.Attribute) and is_mem(n.func.value):
                if n.func.attr == 'pop':
                    events.append(('op', -1))
                elif n.func.attr == 'append':
                    events.append(('op', +1))
            elif isinstance(n, ast.Assign) and any(is_mem(t) for t in n.targets):
                events.append(('op', 'reset'))
    visit(fi.node, False)

    def net(evs):
        v = 0
        for k, x in evs:
            if k == 'op':
                v = 0 if x == 'reset' else v + x
        return v
    out = []
    for i, (k, x) in enumerate(events):
        if k == 'exit' and any(k2 == 'op' for k2, _ in events[i + 1:]):
            out.append((x, net(events[:i]), net(events)))
    return out


def is_reset_to_screen(ops):
    return any(o[0] == 'RESET' for o in ops)


# ---- abstract stack fixpoint
# abstract stack: tuple of tags bottom..top; tags: 'screen', 'digits', 'any'; a trailing '+digits' / '+any' means "one or more of"

MAXLEN = 6


def push(stack, tag):
    s = stack + (tag,)
    if len(s) > MAXLEN:
        # collapse the tail
        tail = set(x.lstrip('+') for x in s[MAXLEN - 1:])
        t = 'digits' if tail == {'digits'} else 'any'
        s = s[:MAXLEN - 1] + ('+' + t,)
    return s


def pop(stack):
    """list of (popped tag, rest) possibilities; '+t' = one or more t"""
    if not stack:
        return []
    top = stack[-1]
    if top.startswith('+'):
        t = top[1:]
        return [(t, stack), (t, stack[:-1])]
    return [(top, stack[:-1])]


def run_action(ops, stack, symtag):
    """-> (list of result stacks, list of (problem kind, lineno))"""
    states = [(stack, None)]
    problems = []
    for op in ops:
        nxt = []
        for st, lp in states:
            if op[0] == 'PUSH':
                if op[1] == 'sym':
                    tag = symtag
                elif op[1] == 'concat':
                    tag = 'digits' if (lp == 'digits' and symtag == 'digits') else 'any'
                else:
                    tag = 'any'
                nxt.append((push(st, tag), lp))
            elif op[0] == 'POP':
                good = False
                for t, rest in pop(st):
                    if t == 'screen':
                        continue
                    good = True
                    if op[1] and t != 'digits':
                        problems.append(('int-of-nondigits', op[2]))
                    nxt.append((rest, t))
                if not good:
                    problems.append(('underflow', op[2]))
            elif op[0] == 'RESET':
                nxt.append((('screen',), lp))
            elif op[0] == 'READ0':
                if not st or st[0] != 'screen':
                    problems.append(('no-screen-at-0', op[2]))
                nxt.append((st, lp))
        states = nxt
    return [s for s, _ in states], problems


def fixpoint(table, summaries):
    """abstract stacks per automaton state.  Returns (stacks: state -> set of stacks,
    findings: list of (kind, state, symclass, action, lineno))"""
    stacks = {table.initial: {('screen',)}}
    findings = []
    seenf = set()
    work = [table.initial]
    it = 0
    while work:
        it += 1
        if it > 5000:
            raise AnalysisError('ANSI stack fixpoint did not converge')
        st = work.pop()
        cur = list(stacks.get(st, ()))
        classes = [(sym, 'digits' if sym in DIGITS else 'any') for sym in table.symbols(st)] + [(None, 'any')]
        for sym, symtag in classes:
            tr = table.lookup(sym, st)
            if tr is None:
                key = ('no-transition', st, sym)
                if key not in seenf:
                    seenf.add(key)
                    findings.append(('no-transition', st, sym, None, 0))
                continue
            act, nx, ln = tr
            ops = summaries.get(act, []) if act is not None else []
            for s in cur:
                outs, probs = run_action(ops, s, symtag)
                for kind, pl in probs:
                    key = (kind, st, sym if sym is None or sym not in DIGITS else 'digit', act)
                    if key not in seenf:
                        seenf.add(key)
                        findings.append((kind, st, sym, act, pl or ln))
                for o in outs:
                    if nx == table.initial and o != ('screen',):
                        key = ('residue', st, sym if sym is None or sym not in DIGITS else 'digit', act)
                        if key not in seenf:
                            seenf.add(key)
                            findings.append(('residue', st, sym, act, ln, o))
                    tgt = stacks.setdefault(nx, set())
                    if o not in tgt:
                        tgt.add(o)
                        if nx not in work:
                            work.append(nx)
    return stacks, findings

"""Parse the package under analysis and build the resolved program model.

* every ``pexpect/*.py`` of the working tree is parsed (``ast``), its sha256 is
  recorded for the evidence;
* interpreter / platform tests are constant-folded for the repository's own
  interpreter (CPython 3, posix): ``PY3``, ``sys.version_info`` comparisons,
  ``sys.platform == 'win32'``, ``os.name == 'posix'``, ``self.__irix_hack``;
  the pruned branches are listed in the evidence;
* classes, their MRO across modules, methods, module functions and nested
  closures become *units* addressed by qualified names such as
  ``pty_spawn:spawn.read_nonblocking`` or
  ``spawnbase:SpawnBase.expect_exact.prepare_pattern``.
"""
import ast
import hashlib
import os
import sys


class AnalysisError(Exception):
    """The analyser cannot decide (anchor vanished, idiom unknown): exit 2."""


# --------------------------------------------------------------------------
# constant folding of interpreter / platform tests

_TRUE_NAMES = {'PY3'}


def _src(node):
    try:
        return ast.unparse(node)
    except Exception:  # pragma: no cover
        return '<?>'


def fold_const(expr):
    """Return True / False when *expr* is an interpreter or platform test whose
    value is fixed for CPython >= 3.7 on posix, else None."""
    if isinstance(expr, ast.Name) and expr.id in _TRUE_NAMES:
        return True
    if isinstance(expr, ast.Constant) and isinstance(expr.value, bool):
        return None  # literal True/False are kept (while True)
    if isinstance(expr, ast.UnaryOp) and isinstance(expr.op, ast.Not):
        v = fold_const(expr.operand)
        return None if v is None else (not v)
    if isinstance(expr, ast.BoolOp):
        vals = [fold_const(v) for v in expr.values]
        if isinstance(expr.op, ast.And):
            if any(v is False for v in vals):
                return False
            if all(v is True for v in vals):
                return True
        else:
            if any(v is True for v in vals):
                return True
            if all(v is False for v in vals):
                return False
        return None
    if isinstance(expr, ast.Compare) and len(expr.ops) == 1:
        s = _src(expr)
        table = {
            'sys.version_info[0] >= 3': True,
            'sys.version_info > (3, 0)': True,
            'sys.version_info >= (3, 0)': True,
            'py_version_info >= (3, 6)': True,
            'py_version_info >= (3, 7)': True,
            'sys.version_info >= (3, 6)': True,
            'sys.version_info >= (3, 7)': True,
            "sys.platform == 'win32'": False,
            "sys.platform != 'win32'": True,
            "os.name == 'posix'": True,
            "os.name != 'posix'": False,
            "os.name == 'nt'": False,
        }
        return table.get(s)
    if isinstance(expr, ast.Attribute):
        s = _src(expr)
        if s in ('self.__irix_hack', 'self._spawn__irix_hack'):
            return False
    if isinstance(expr, ast.Call):
        s = _src(expr)
        if s in ("sys.platform.startswith('sunos')",
                 "sys.platform.lower().startswith('sunos')"):
            return False
    return None


class _Folder(ast.NodeTransformer):
    def __init__(self, modname, pruned):
        self.modname = modname
        self.pruned = pruned

    def _note(self, node, val):
        self.pruned.append('%s:%d %s -> %s' % (self.modname, node.lineno,
                                               _src(node)[:60], val))

    def visit_If(self, node):
        self.generic_visit(node)
        v = fold_const(node.test)
        if v is None:
            # partially constant conjunctions: drop the constant operands
            node.test = self._simplify(node.test)
            return node
        self._note(node.test, v)
        body = node.body if v else node.orelse
        return body if body else [ast.copy_location(ast.Pass(), node)]

    def visit_IfExp(self, node):
        self.generic_visit(node)
        v = fold_const(node.test)
        if v is None:
            return node
        self._note(node.test, v)
        return node.body if v else node.orelse

    def _simplify(self, test):
        if isinstance(test, ast.BoolOp):
            keep = []
            for v in test.values:
                c = fold_const(v)
                if c is None:
                    keep.append(self._simplify(v))
                elif isinstance(test.op, ast.And) and c is True:
                    self._note(v, c)
                elif isinstance(test.op, ast.Or) and c is False:
                    self._note(v, c)
                else:  # dominated, fold_const would have folded the whole
                    keep.append(v)
            if len(keep) == 1:
                return keep[0]
            if keep:
                test.values = keep
        return test


# --------------------------------------------------------------------------
# program model

class Module(object):
    def __init__(self, name, path, src, tree, sha):
        self.name = name
        self.path = path
        self.src = src
        self.tree = tree
        self.sha = sha


class ClassInfo(object):
    def __init__(self, name, module, node):
        self.name = name
        self.module = module
        self.node = node
        self.base_names = []
        self.methods = {}      # name -> FuncInfo (own methods only)
        self.class_attrs = {}  # name -> ast value (simple assignments)

    def __repr__(self):
        return '<class %s:%s>' % (self.module.name, self.name)


class FuncInfo(object):
    repo = None

    def __init__(self, qual, module, node, cls=None, parent=None):
        self.qual = qual            # 'module:Class.meth' / 'module:func'
        self.module = module
        self.node = node
        self.cls = cls
        self.parent = parent        # enclosing FuncInfo for closures
        self.nested = {}            # local name -> [FuncInfo] (may be redefined)
        self._cfg = None
        self._aliases = None

    @property
    def name(self):
        return self.node.name

    @property
    def params(self):
        a = self.node.args
        return [x.arg for x in a.posonlyargs + a.args + a.kwonlyargs]

    def param_default(self, name):
        a = self.node.args
        pos = a.posonlyargs + a.args
        defaults = [None] * (len(pos) - len(a.defaults)) + list(a.defaults)
        for p, d in zip(pos, defaults):
            if p.arg == name:
                return d
        for p, d in zip(a.kwonlyargs, a.kw_defaults):
            if p.arg == name:
                return d
        return None

    @property
    def file(self):
        return self.module.path

    def loc(self, node=None):
        n = node if node is not None else self.node
        return '%s:%d' % (self.module.path, getattr(n, 'lineno', 0))

    @property
    def cfg(self):
        if self._cfg is None:
            from .cfg import build_cfg
            self._cfg = build_cfg(self)
        return self._cfg

    def __repr__(self):
        return '<func %s>' % self.qual


def _decorator_names(node):
    out = []
    for d in node.decorator_list:
        out.append(_src(d))
    return out


class Repo(object):
    """The resolved program."""

    def __init__(self, root, overrides=None, with_ptyprocess=True):
        self.root = root
        self.modules = {}
        self.classes = {}
        self.funcs = {}
        self.pruned = []
        self.overrides = overrides or {}
        pkg = os.path.join(root, 'pexpect')
        if not os.path.isdir(pkg):
            raise AnalysisError('package directory %s not found' % pkg)
        for fn in sorted(os.listdir(pkg)):
            if not fn.endswith('.py'):
                continue
            self._load(fn[:-3], os.path.join(pkg, fn))
        self.ptyprocess_path = None
        if with_ptyprocess:
            p = find_ptyprocess()
            if p:
                self.ptyprocess_path = p
                self._load('ptyprocess', p, fold=False)
        if os.environ.get('VERIF_NO_CANON') != '1':
            from . import canon
            trees = dict((n, m.tree) for n, m in self.modules.items())
            self.canon_hits = canon.canonicalise(trees, skip=('ptyprocess',))
            from . import inline as _inline
            self.opaque_helpers = set(getattr(_inline.inline_all, 'opaque', ()))
            for n, t in trees.items():
                self.modules[n].tree = t
        for m in self.modules.values():
            for parent in ast.walk(m.tree):
                for child in ast.iter_child_nodes(parent):
                    child._parent = parent
        self._index()
        for f in self.funcs.values():
            f.repo = self

    # ---- loading
    def _load(self, name, path, fold=True):
        if name in self.overrides:
            src = self.overrides[name]
        else:
            with open(path, 'rb') as f:
                src = f.read().decode('utf-8')
        try:
            tree = ast.parse(src, filename=path)
        except SyntaxError as e:
            raise AnalysisError('cannot parse %s: %s' % (path, e))
        if fold:
            if os.environ.get('VERIF_NO_CANON') != '1':
                # comparison orientation first, so that the platform tests below are recognised however they are written
                from . import canon
                tree = canon._Expr({}).visit(tree)
            tree = _Folder(name, self.pruned).visit(tree)
            ast.fix_missing_locations(tree)
        sha = hashlib.sha256(src.encode('utf-8')).hexdigest()
        self.modules[name] = Module(name, path, src, tree, sha)

    def _index(self):
        for m in self.modules.values():
            self._index_body(m, m.tree.body, prefix='', cls=None, parent=None)

    def _index_body(self, m, body, prefix, cls, parent):
        for st in self._flatten(body):
            if isinstance(st, ast.ClassDef):
                ci = ClassInfo(st.name, m, st)
                ci.base_names = [_src(b).split('.')[-1] for b in st.bases]
                key = st.name
                if key in self.classes and m.name == 'ptyprocess':
                    key = 'ptyprocess.' + key
                # the two asyncio twins define the same class; keep the one
                # selected for this interpreter under the plain name
                if key in self.classes and m.name == '_async_pre_await':
                    key = '_async_pre_await.' + key
                elif key in self.classes and self.classes[key].module.name == '_async_pre_await':
                    self.classes['_async_pre_await.' + key] = self.classes[key]
                self.classes[key] = ci
                for s2 in self._flatten(st.body):
                    if isinstance(s2, (ast.FunctionDef, ast.AsyncFunctionDef)):
                        q = '%s:%s.%s' % (m.name, st.name, s2.name)
                        fi = FuncInfo(q, m, s2, cls=ci)
                        # property setters share the name: keep getter under
                        # the name, setter under name.setter
                        decos = _decorator_names(s2)
                        if any(d.endswith('.setter') for d in decos):
                            q = q + '.setter'
                            fi.qual = q
                            ci.methods[s2.name + '.setter'] = fi
                        else:
                            ci.methods[s2.name] = fi
                        self.funcs[q] = fi
                        self._index_nested(m, fi)
                    elif isinstance(s2, ast.Assign) and len(s2.targets) == 1 \
                            and isinstance(s2.targets[0], ast.Name):
                        ci.class_attrs[s2.targets[0].id] = s2.value
            elif isinstance(st, (ast.FunctionDef, ast.AsyncFunctionDef)):
                q = '%s:%s' % (m.name, st.name)
                fi = FuncInfo(q, m, st)
                self.funcs[q] = fi
                self._index_nested(m, fi)

    def _flatten(self, body):
        """Statements of a body, looking through if/try at module or class
        level (version switches that survived folding)."""
        for st in body:
            if isinstance(st, ast.If):
                for x in self._flatten(st.body):
                    yield x
                for x in self._flatten(st.orelse):
                    yield x
            elif isinstance(st, ast.Try):
                for x in self._flatten(st.body):
                    yield x
            else:
                yield st

    def _index_nested(self, m, fi):
        counter = {}
        for node in ast.walk(fi.node):
            if node is fi.node:
                continue
            if isinstance(node, (ast.FunctionDef, ast.AsyncFunctionDef)):
                # only direct closures (their own closures are indexed by recursion)
                p = getattr(node, '_parent', None)
                while p is not None and not isinstance(p, (ast.FunctionDef, ast.AsyncFunctionDef)):
                    p = getattr(p, '_parent', None)
                if p is not fi.node:
                    continue
                k = counter.get(node.name, 0)
                counter[node.name] = k + 1
                q = '%s.%s' % (fi.qual, node.name) + ('#%d' % k if k else '')
                sub = FuncInfo(q, m, node, cls=fi.cls, parent=fi)
                fi.nested.setdefault(node.name, []).append(sub)
                self.funcs[q] = sub
                self._index_nested(m, sub)

    def noreturn_names(self):
        """Method names all of whose definitions in the package end in a
        top-level ``raise`` and contain no ``return``: a call statement
        ``self.<name>(...)`` never completes normally."""
        if getattr(self, '_noreturn', None) is None:
            by_name = {}
            for q, f in self.funcs.items():
                if f.module.name == 'ptyprocess':
                    continue
                body = [st for st in f.node.body
                        if not (isinstance(st, ast.Expr) and isinstance(st.value, ast.Constant))]
                nr = bool(body) and isinstance(body[-1], ast.Raise) and not any(
                    isinstance(x, (ast.Return, ast.Yield, ast.YieldFrom)) for x in ast.walk(f.node))
                by_name.setdefault(f.name, []).append(nr)
            self._noreturn = set(k for k, v in by_name.items() if all(v))
        return self._noreturn

    # ---- queries
    def func(self, qual):
        f = self.funcs.get(qual)
        if f is None:
            raise AnalysisError('anchor vanished: function %s not found' % qual)
        return f

    def has_func(self, qual):
        return qual in self.funcs

    def cls(self, name):
        c = self.classes.get(name)
        if c is None:
            raise AnalysisError('anchor vanished: class %s not found' % name)
        return c

    def mro(self, cls):
        """Linearisation good enough for single inheritance chains."""
        out, seen = [], set()

        def go(c):
            if c.name in seen:
                return
            seen.add(c.name)
            out.append(c)
            for b in c.base_names:
                bc = self.classes.get(b)
                if bc is not None and bc is not c:
                    go(bc)
        go(cls)
        return out

    def is_subclass(self, cls, basename):
        return any(c.name == basename for c in self.mro(cls))

    def subclasses(self, basename):
        return [c for k, c in sorted(self.classes.items())
                if '.' not in k and self.is_subclass(c, basename)]

    def resolve_method(self, cls, name, after=None):
        """First definition of *name* in the MRO of *cls* (after class *after*
        when given: ``super(after, self).name``)."""
        chain = self.mro(cls)
        if after is not None:
            idx = [i for i, c in enumerate(chain) if c.name == after]
            chain = chain[idx[0] + 1:] if idx else []
        for c in chain:
            if name in c.methods:
                return c.methods[name]
        return None

    def implementations(self, basename, name):
        """Every distinct definition of method *name* in *basename* and its
        subclasses (dynamic dispatch from a base-class context)."""
        out = []
        for c in self.subclasses(basename):
            if name in c.methods and c.methods[name] not in out:
                out.append(c.methods[name])
        return out

    def package_funcs(self, include_lib=False):
        for q in sorted(self.funcs):
            f = self.funcs[q]
            if f.module.name == 'ptyprocess' and not include_lib:
                continue
            yield f

    def digests(self):
        return dict((m.name, m.sha[:16]) for m in self.modules.values())


def find_ptyprocess():
    """Locate ptyprocess/ptyprocess.py without importing it."""
    cands = []
    for base in ['/venv/lib'] + sys.path:
        if not base or not os.path.isdir(base):
            continue
        if base == '/venv/lib':
            for d in sorted(os.listdir(base)):
                cands.append(os.path.join(base, d, 'site-packages', 'ptyprocess', 'ptyprocess.py'))
        else:
            cands.append(os.path.join(base, 'ptyprocess', 'ptyprocess.py'))
    for c in cands:
        if os.path.isfile(c):
            return c
    return None

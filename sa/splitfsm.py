"""Extraction of the split_command_line scanner as a finite transducer
(conditional constant propagation per (state, character class, arg-empty)
entry fact) and its product with the specification automaton of the
documented quoting rules.

The abstraction is exact: the scanner only *compares* the current character
with literals / isspace() and appends it unchanged, so a character can be
replaced by its class in the partition induced by those tests.
"""
import ast

from .astx import dotted, norm, src, iter_nodes, assigned_names
from .loader import AnalysisError

B, S, D, W, O = 'backslash', 'squote', 'dquote', 'space', 'other'
LIT = {'\\': B, "'": S, '"': D}


class Unknown(AnalysisError):
    pass


class Scanner(object):
    def __init__(self, fi):
        self.fi = fi
        fn = fi.node
        loops = [n for n in fn.body if isinstance(n, ast.For)]
        if len(loops) != 1:
            raise Unknown('split_command_line: expected one top-level for loop')
        self.loop = loops[0]
        self.pre = None
        it = self.loop.iter
        if isinstance(it, ast.Call) and isinstance(it.func, ast.Attribute) and it.func.attr in ('strip', 'rstrip', 'lstrip') \
                and not it.args and isinstance(it.func.value, ast.Name) and it.func.value.id == fi.params[0]:
            self.pre = it.func.attr      # whitespace trimmed BEFORE the quoting rules are applied: modelled in explore()
            it = it.func.value
        if not (isinstance(self.loop.target, ast.Name) and isinstance(it, ast.Name) and it.id == fi.params[0]):
            raise Unknown('split_command_line: the loop does not iterate the command line character by character')
        self.cvar = self.loop.target.id
        self.consts = {}
        self.init = {}
        idx = fn.body.index(self.loop)
        for st in fn.body[:idx]:
            if isinstance(st, ast.Expr) and isinstance(st.value, ast.Constant):
                continue
            if isinstance(st, ast.Assign) and len(st.targets) == 1 and isinstance(st.targets[0], ast.Name):
                name = st.targets[0].id
                v = st.value
                if isinstance(v, ast.Constant) and isinstance(v.value, int) and not isinstance(v.value, bool):
                    self.consts[name] = v.value
                    self.init[name] = v.value
                elif isinstance(v, ast.Constant) and v.value == '':
                    self.init[name] = 'EMPTY'
                elif isinstance(v, ast.List) and not v.elts:
                    self.init[name] = 'LIST'
                elif isinstance(v, ast.Name) and v.id in self.consts:
                    self.init[name] = self.consts[v.id]
                else:
                    raise Unknown('split_command_line: unrecognised initialisation %s' % norm(st))
            else:
                raise Unknown('split_command_line: unrecognised statement before the loop: %s' % norm(st))
        self.post = fn.body[idx + 1:]
        self.statevar = None
        self.argvar = None
        self.listvar = None
        for k, v in self.init.items():
            if v == 'EMPTY':
                self.argvar = k
            elif v == 'LIST':
                self.listvar = k
        cands = [k for k, v in self.init.items() if isinstance(v, int) and any(
            isinstance(n, ast.Assign) and k in assigned_names(n) for n in iter_nodes(self.loop))]
        if len(cands) != 1 or self.argvar is None or self.listvar is None:
            raise Unknown('split_command_line: state / arg / list variables not identified')
        self.statevar = cands[0]
        self.state_values = sorted(set(v for k, v in self.consts.items() if k != self.statevar))
        self.names = dict((v, k) for k, v in self.consts.items() if k != self.statevar)
        # literal characters compared with the loop variable -> classes
        self.classes = [B, S, D, W, O]
        for n in iter_nodes(self.loop):
            if isinstance(n, ast.Compare) and isinstance(n.left, ast.Name) and n.left.id == self.cvar:
                for cmp_ in n.comparators:
                    if isinstance(cmp_, ast.Constant) and isinstance(cmp_.value, str):
                        ch = cmp_.value
                        if ch not in LIT and ('lit:' + ch) not in self.classes:
                            self.classes.append('lit:' + ch)

    # ---- abstract evaluation
    def ev(self, e, env):
        if isinstance(e, ast.Constant):
            return e.value
        if isinstance(e, ast.Name):
            if e.id in env:
                return env[e.id]
            raise Unknown('split_command_line: unknown name %s' % e.id)
        if isinstance(e, ast.BoolOp):
            if isinstance(e.op, ast.And):
                return all(self.ev(v, env) for v in e.values)
            return any(self.ev(v, env) for v in e.values)
        if isinstance(e, ast.UnaryOp) and isinstance(e.op, ast.Not):
            return not self.ev(e.operand, env)
        if isinstance(e, ast.Compare) and len(e.ops) == 1:
            l, r = self.ev(e.left, env), self.ev(e.comparators[0], env)
            op = e.ops[0]
            if isinstance(l, tuple) and l[0] == 'CHAR' or isinstance(r, tuple) and r[0] == 'CHAR':
                ch, lit = (l, r) if isinstance(l, tuple) else (r, l)
                if not isinstance(lit, str) or len(lit) != 1:
                    raise Unknown('split_command_line: character compared with %r' % (lit,))
                cls = LIT.get(lit, 'lit:' + lit)
                res = ch[1] == cls
                if isinstance(op, ast.Eq):
                    return res
                if isinstance(op, ast.NotEq):
                    return not res
                raise Unknown('split_command_line: ordering comparison on a character')
            if isinstance(l, tuple) and l[0] == 'ARG' or isinstance(r, tuple) and r[0] == 'ARG':
                a, lit = (l, r) if isinstance(l, tuple) else (r, l)
                if lit != '':
                    raise Unknown('split_command_line: argument compared with %r' % (lit,))
                res = a[1]      # is empty
                if isinstance(op, ast.Eq):
                    return res
                if isinstance(op, ast.NotEq):
                    return not res
                raise Unknown('split_command_line: unsupported comparison of the argument')
            if isinstance(l, int) and isinstance(r, int):
                if isinstance(op, ast.Eq):
                    return l == r
                if isinstance(op, ast.NotEq):
                    return l != r
                if isinstance(op, ast.Is):
                    return l == r
            raise Unknown('split_command_line: comparison not understood: %s' % norm(e))
        if isinstance(e, ast.Call) and isinstance(e.func, ast.Attribute) and e.func.attr == 'isspace' and not e.args:
            v = self.ev(e.func.value, env)
            if isinstance(v, tuple) and v[0] == 'CHAR':
                return v[1] == W or (v[1].startswith('lit:') and v[1][4:].isspace())
            raise Unknown('isspace() on a non-character')
        if isinstance(e, ast.Call) and isinstance(e.func, ast.Name) and e.func.id == 'len' and len(e.args) == 1:
            v = self.ev(e.args[0], env)
            if isinstance(v, tuple) and v[0] == 'ARG':
                return 0 if v[1] else 1
        if isinstance(e, ast.BinOp) and isinstance(e.op, ast.Add):
            l, r = self.ev(e.left, env), self.ev(e.right, env)
            if isinstance(l, tuple) and l[0] == 'ARG' and isinstance(r, tuple) and r[0] == 'CHAR':
                return ('ARG+CHAR',)
            raise Unknown('split_command_line: concatenation not understood: %s' % norm(e))
        raise Unknown('split_command_line: expression not understood: %s' % norm(e))

    def run_block(self, stmts, env, eff):
        for st in stmts:
            if isinstance(st, ast.Expr):
                v = st.value
                if isinstance(v, ast.Constant):
                    continue
                if isinstance(v, ast.Call) and isinstance(v.func, ast.Attribute) and v.func.attr == 'append' \
                        and isinstance(v.func.value, ast.Name) and v.func.value.id == self.listvar and len(v.args) == 1:
                    a = self.ev(v.args[0], env)
                    if isinstance(a, tuple) and a[0] == 'ARG':
                        eff.append('PUSH')
                        continue
                raise Unknown('split_command_line: statement not understood: %s' % norm(st))
            elif isinstance(st, ast.Pass):
                continue
            elif isinstance(st, ast.Assign) and len(st.targets) == 1 and isinstance(st.targets[0], ast.Name):
                t = st.targets[0].id
                v = self.ev(st.value, env)
                if t == self.statevar and isinstance(v, int):
                    env[t] = v
                elif t == self.argvar and v == ('ARG+CHAR',):
                    eff.append('APPEND')
                    env[t] = ('ARG', False)
                elif t == self.argvar and v == '':
                    eff.append('RESET')
                    env[t] = ('ARG', True)
                else:
                    raise Unknown('split_command_line: assignment not understood: %s' % norm(st))
            elif isinstance(st, ast.AugAssign) and isinstance(st.target, ast.Name) and st.target.id == self.argvar \
                    and isinstance(st.op, ast.Add):
                v = self.ev(st.value, env)
                if isinstance(v, tuple) and v[0] == 'CHAR':
                    eff.append('APPEND')
                    env[self.argvar] = ('ARG', False)
                else:
                    raise Unknown('split_command_line: augmented assignment not understood: %s' % norm(st))
            elif isinstance(st, ast.If):
                if self.ev(st.test, env):
                    self.run_block(st.body, env, eff)
                else:
                    self.run_block(st.orelse, env, eff)
            elif isinstance(st, ast.Continue):
                raise StopIteration()
            else:
                raise Unknown('split_command_line: statement form not modelled: %s' % norm(st))

    def step(self, state, cls, arg_empty):
        env = dict(self.consts)
        env[self.statevar] = state
        env[self.cvar] = ('CHAR', cls)
        env[self.argvar] = ('ARG', arg_empty)
        eff = []
        try:
            self.run_block(self.loop.body, env, eff)
        except StopIteration:
            pass
        ns = env[self.statevar]
        ae = env[self.argvar][1]
        return ns, tuple(normalise(eff)), ae

    def initial(self):
        return self.init[self.statevar], True

    def final_push(self, state, arg_empty):
        env = dict(self.consts)
        env[self.statevar] = state
        env[self.argvar] = ('ARG', arg_empty)
        eff = []
        ret = None
        stmts = list(self.post)
        if not stmts or not isinstance(stmts[-1], ast.Return) or not (isinstance(stmts[-1].value, ast.Name) and stmts[-1].value.id == self.listvar):
            raise Unknown('split_command_line: does not end with `return %s`' % self.listvar)
        self.run_block(stmts[:-1], env, eff)
        return tuple(normalise(eff))


def normalise(eff):
    out = []
    i = 0
    while i < len(eff):
        if eff[i] == 'PUSH' and i + 1 < len(eff) and eff[i + 1] == 'RESET':
            out.append('PUSH')
            i += 2
        elif eff[i] == 'PUSH':
            out.append('PUSH-without-reset')
            i += 1
        elif eff[i] == 'RESET':
            out.append('DROP')
            i += 1
        else:
            out.append(eff[i])
            i += 1
    return out


# ---- specification automaton of the documented rules
# modes: WS (between arguments), ARG (inside an argument), ESC, SQ0/SQ1 (single quotes, empty / non-empty segment), DQ0/DQ1

def spec_step(mode, cls):
    """(allowed by the generator?, events, next mode)"""
    base = O if cls.startswith('lit:') and not cls[4:].isspace() else (W if cls.startswith('lit:') else cls)
    if mode in ('WS', 'ARG'):
        if base == W:
            return True, (('PUSH',) if mode == 'ARG' else ()), 'WS'
        if base == B:
            return True, (), 'ESC'
        if base == S:
            return True, (), 'SQ0'
        if base == D:
            return True, (), 'DQ0'
        return True, ('APPEND',), 'ARG'
    if mode == 'ESC':
        return True, ('APPEND',), 'ARG'
    if mode in ('SQ0', 'SQ1'):
        if base == S:
            return (mode == 'SQ1'), (), 'ARG'
        return True, ('APPEND',), 'SQ1'
    if mode in ('DQ0', 'DQ1'):
        if base == D:
            return (mode == 'DQ1'), (), 'ARG'
        if base == B:
            return False, (), mode      # backslash inside double quotes: the documented rules do not say; not generated
        return True, ('APPEND',), 'DQ1'
    raise AssertionError(mode)


def explore(sc):
    """BFS over the product of the extracted transducer and the spec.
    Returns (table, product_states, transitions, mismatches) where a mismatch is
    (class string, description)."""
    table = {}
    for s in sc.state_values:
        for cls in sc.classes:
            for ae in (True, False):
                table[(s, cls, ae)] = sc.step(s, cls, ae)
    from collections import deque
    s0, ae0 = sc.initial()
    start = (s0, ae0, 'WS')
    seen = {start: ()}
    dq = deque([start])
    mism = []
    ntrans = 0
    while dq:
        cur = dq.popleft()
        cs, cae, mode = cur
        path = seen[cur]
        if mode in ('WS', 'ARG'):
            fin = sc.final_push(cs, cae)
            want = ('PUSH-without-reset',) if mode == 'ARG' else ()
            # at the end of input the pending argument is pushed (no reset needed)
            if fin != want:
                mism.append((path, 'at end of input after %s: expected %s, scanner does %s'
                             % (pretty(path), 'the open argument to be pushed' if mode == 'ARG' else 'nothing', list(fin) or 'nothing')))
        if sc.pre in ('strip', 'rstrip'):
            # the scanner never sees trailing whitespace: wherever the real input may continue with whitespace only,
            # what the scanner does at (its) end of input must equal what the rules demand for <rest of whitespace><end>
            allowed, sev, nmode = spec_step(mode, W)
            if allowed:
                want_ev = list(sev)
                m2 = nmode
                for _ in range(2):
                    if m2 in ('WS', 'ARG'):
                        break
                    a2, e2, m2 = spec_step(m2, W)
                    want_ev += list(e2)
                if m2 in ('WS', 'ARG'):
                    # further whitespace is a no-op in WS; in ARG the next one pushes
                    if m2 == 'ARG':
                        want_ev.append('PUSH')
                    got = [('PUSH' if x == 'PUSH-without-reset' else x) for x in sc.final_push(cs, cae)]
                    if got != want_ev:
                        mism.append((path + (W,), 'input %s followed by whitespace up to its end: the %s() applied before scanning removes that '
                                     'whitespace although the rules say it is %s; expected %s, scanner does %s'
                                     % (pretty(path), sc.pre, 'protected by the preceding backslash / quote' if 'APPEND' in want_ev else 'a separator',
                                        want_ev or 'nothing', got or 'nothing')))
        for cls in sc.classes:
            allowed, sev, nmode = spec_step(mode, cls)
            if not allowed:
                continue
            ntrans += 1
            ns, cev, nae = table[(cs, cls, cae)]
            if tuple(cev) != tuple(sev):
                mism.append((path + (cls,), 'after %s, reading %s in scanner state %s: expected %s, scanner does %s'
                             % (pretty(path), cls, sc.names.get(cs, cs), list(sev) or 'no event', list(cev) or 'no event')))
                continue
            nxt = (ns, nae, nmode)
            if nxt not in seen:
                seen[nxt] = path + (cls,)
                dq.append(nxt)
    return table, seen, ntrans, mism


def pretty(path):
    sym = {B: '\\', S: "'", D: '"', W: '_', O: 'x'}
    return '"' + ''.join(sym.get(p, p[4:] if p.startswith('lit:') else '?') for p in path) + '"' if path else 'the start'

"""Path-sensitive definite assignment and nullness over the CFG.

Abstract state = (names definitely bound, facts) where a fact is
(access path, 'none' | 'notnone' | 'truthy' | 'falsy') for a local or a ``self.x`` path.
States are kept as *sets* per CFG node (no lossy join), refined on branch edges
by what the test implies, and pruned when a refinement contradicts a fact --
this is what makes ``if t is not None: end = ...`` / ``if t is not None: use(end)``
a non-finding (guard correlation).  Exception edges carry the state *before*
the raising statement.  There is no path-condition solving beyond these facts.
"""
import ast
import builtins

from .astx import assigned_targets, dotted, iter_nodes, norm, src
from .loader import AnalysisError

MAX_STATES = 400
ORDERING = (ast.Lt, ast.LtE, ast.Gt, ast.GtE)


def _path_of(e):
    """access path text for locals and self.x (else None)"""
    if isinstance(e, ast.Name):
        return e.id
    if isinstance(e, ast.Attribute) and isinstance(e.value, ast.Name):
        return '%s.%s' % (e.value.id, e.attr)
    if isinstance(e, ast.Attribute) and isinstance(e.value, ast.Attribute) and isinstance(e.value.value, ast.Name):
        return '%s.%s.%s' % (e.value.value.id, e.value.attr, e.attr)
    return None


def refine(test, truth):
    """facts implied when *test* evaluates to *truth*: list of (path, fact);
    None if nothing can be said."""
    out = []
    if isinstance(test, ast.UnaryOp) and isinstance(test.op, ast.Not):
        return refine(test.operand, not truth)
    if isinstance(test, ast.BoolOp):
        if isinstance(test.op, ast.And) and truth:
            for v in test.values:
                out.extend(refine(v, True))
            return out
        if isinstance(test.op, ast.Or) and not truth:
            for v in test.values:
                out.extend(refine(v, False))
            return out
        return out
    if isinstance(test, ast.Compare) and len(test.ops) == 1:
        l, op, r = test.left, test.ops[0], test.comparators[0]
        p = _path_of(l)
        if p and isinstance(r, ast.Constant) and r.value is None and isinstance(op, (ast.Is, ast.IsNot, ast.Eq, ast.NotEq)):
            is_none = isinstance(op, (ast.Is, ast.Eq)) == truth
            out.append((p, 'none' if is_none else 'notnone'))
            return out
        if p and isinstance(op, ORDERING + (ast.Eq,)) and truth and not (isinstance(r, ast.Constant) and r.value is None):
            # an ordering / equality with a number that evaluated means p was not None ... only if it did not raise;
            # `x == -1` true implies x is not None
            if isinstance(op, ast.Eq) and isinstance(r, (ast.Constant, ast.UnaryOp)):
                out.append((p, 'notnone'))
            return out
        return out
    p = _path_of(test)
    if p:
        out.append((p, 'truthy') if truth else (p, 'falsy'))          # truthy implies not None
        return out
    if isinstance(test, ast.Call) and dotted(test.func) == 'isinstance' and truth and test.args:
        p = _path_of(test.args[0])
        if p:
            out.append((p, 'notnone'))
    return out


def contradicts(facts, new):
    d = dict(facts)
    for p, f in new:
        cur = d.get(p)
        if cur is None:
            continue
        if cur == 'none' and f in ('notnone', 'truthy'):
            return True
        if cur in ('notnone', 'truthy') and f == 'none':
            return True
        if (cur == 'truthy' and f == 'falsy') or (cur == 'falsy' and f == 'truthy'):
            return True          # `if x:` ... `if not x:` on a name nothing re-bound in between
    return False


def add_facts(facts, new):
    d = dict(facts)
    for p, f in new:
        cur = d.get(p)
        if f == 'falsy' and cur in ('none',):
            continue
        if f == 'falsy' and cur == 'notnone':
            d[p] = 'notnone'     # falsy but not None (0, '', ...): keep the stronger None-fact
            continue
        if f == 'notnone' and cur == 'truthy':
            continue
        d[p] = f
    return tuple(sorted(d.items()))


def kill(facts, path):
    return tuple((p, f) for p, f in facts if p != path and not p.startswith(path + '.'))


def value_fact(v):
    """'none' / 'notnone' / None(unknown) for an assigned value expression."""
    if isinstance(v, ast.Constant):
        return 'none' if v.value is None else 'notnone'
    if isinstance(v, (ast.BinOp, ast.JoinedStr, ast.List, ast.Tuple, ast.Dict, ast.Set, ast.ListComp, ast.Compare)):
        return 'notnone'
    if isinstance(v, ast.UnaryOp):
        return 'notnone'
    if isinstance(v, ast.Call):
        d = dotted(v.func)
        if d in ('time.time', 'len', 'int', 'float', 'str', 'max', 'min', 'list', 'dict', 'set', 'tuple', 'bytes', 'abs'):
            return 'notnone'
    return None


class Finding(object):
    def __init__(self, kind, name, node, cfgnode, state):
        self.kind, self.name, self.node, self.cfgnode, self.state = kind, name, node, cfgnode, state


class Flow(object):
    def __init__(self, fi, noneable=None, none_attrs=()):
        self.fi = fi
        self.g = fi.cfg
        self.locals = self._locals()
        self.params = set(fi.params)
        a = fi.node.args
        if a.vararg:
            self.params.add(a.vararg.arg)
        if a.kwarg:
            self.params.add(a.kwarg.arg)
        self.noneable = noneable
        self.none_attrs = set(none_attrs)
        self.findings = []
        self._seenf = set()
        self.prev = {}
        self.states = {}

    def _locals(self):
        out = set()
        for n in iter_nodes(self.fi.node):
            if n is self.fi.node:
                continue
            if isinstance(n, (ast.Assign, ast.AugAssign, ast.AnnAssign, ast.For, ast.AsyncFor, ast.With, ast.AsyncWith)):
                for t in assigned_targets(n):
                    if isinstance(t, ast.Name):
                        out.add(t.id)
            elif isinstance(n, ast.ExceptHandler) and n.name:
                out.add(n.name)
            elif isinstance(n, (ast.FunctionDef, ast.AsyncFunctionDef, ast.ClassDef)):
                out.add(n.name)
            elif isinstance(n, (ast.Import, ast.ImportFrom)):
                for al in n.names:
                    out.add((al.asname or al.name).split('.')[0])
            elif isinstance(n, ast.NamedExpr) and isinstance(n.target, ast.Name):
                out.add(n.target.id)
        # global / nonlocal declarations are not locals
        for n in iter_nodes(self.fi.node):
            if isinstance(n, (ast.Global, ast.Nonlocal)):
                out -= set(n.names)
        return out

    # -------------------------------------------------------------- expression walk
    def walk_expr(self, e, defined, facts, cfgnode, st):
        """Visit *e* in evaluation order under (defined, facts); reports uses of
        unbound locals and None-misuses; returns nothing (expressions do not
        change the state, except walrus which we do not model)."""
        if e is None:
            return
        if isinstance(e, (ast.FunctionDef, ast.AsyncFunctionDef, ast.ClassDef, ast.Lambda)):
            return
        if isinstance(e, ast.Name):
            if isinstance(e.ctx, ast.Load) and e.id in self.locals and e.id not in defined and e.id not in self.params:
                self.report('unbound', e.id, e, cfgnode, st)
            return
        if isinstance(e, ast.BoolOp):
            cur = facts
            for i, v in enumerate(e.values):
                self.walk_expr(v, defined, cur, cfgnode, st)
                ref = refine(v, isinstance(e.op, ast.And))
                if contradicts(cur, ref):
                    return      # the remaining operands are not evaluated in this state (short-circuit)
                cur = add_facts(cur, ref)
            return
        if isinstance(e, ast.IfExp):
            self.walk_expr(e.test, defined, facts, cfgnode, st)
            if not contradicts(facts, refine(e.test, True)):
                self.walk_expr(e.body, defined, add_facts(facts, refine(e.test, True)), cfgnode, st)
            if not contradicts(facts, refine(e.test, False)):
                self.walk_expr(e.orelse, defined, add_facts(facts, refine(e.test, False)), cfgnode, st)
            return
        if isinstance(e, (ast.ListComp, ast.SetComp, ast.GeneratorExp, ast.DictComp)):
            bound = set()
            for gen in e.generators:
                self.walk_expr(gen.iter, defined | bound, facts, cfgnode, st)
                for t in ast.walk(gen.target):
                    if isinstance(t, ast.Name):
                        bound.add(t.id)
                for c in gen.ifs:
                    self.walk_expr(c, defined | bound, facts, cfgnode, st)
            if isinstance(e, ast.DictComp):
                self.walk_expr(e.key, defined | bound, facts, cfgnode, st)
                self.walk_expr(e.value, defined | bound, facts, cfgnode, st)
            else:
                self.walk_expr(e.elt, defined | bound, facts, cfgnode, st)
            return
        if self.noneable is not None:
            self.check_none_use(e, facts, cfgnode, st)
        for ch in ast.iter_child_nodes(e):
            if isinstance(ch, ast.expr):
                self.walk_expr(ch, defined, facts, cfgnode, st)
            elif isinstance(ch, (ast.keyword,)):
                self.walk_expr(ch.value, defined, facts, cfgnode, st)
            elif isinstance(ch, ast.Slice):
                for x in (ch.lower, ch.upper, ch.step):
                    self.walk_expr(x, defined, facts, cfgnode, st)

    def _module_const_fact(self, name):
        try:
            tree = self.fi.module.tree
        except AttributeError:
            return None
        vals = [st.value for st in tree.body if isinstance(st, ast.Assign) and any(isinstance(t, ast.Name) and t.id == name for t in st.targets)]
        local = any(isinstance(x, ast.Name) and x.id == name and isinstance(x.ctx, ast.Store) for x in ast.walk(self.fi.node))
        if len(vals) == 1 and not local and isinstance(vals[0], (ast.Constant, ast.BinOp, ast.UnaryOp)):
            return value_fact(vals[0])
        return None

    def maybe_none(self, e, facts):
        p = _path_of(e)
        if p is None:
            return False
        if not (p in self.noneable or (p.startswith('self.') and p[5:] in self.none_attrs)
                or ('.' in p and p.split('.')[-1] in self.none_attrs and p.split('.')[0] in ('self', 'spawn'))):
            return False
        f = dict(facts).get(p)
        return f not in ('notnone', 'truthy')

    def check_none_use(self, e, facts, cfgnode, st):
        if isinstance(e, ast.Compare):
            operands = [e.left] + list(e.comparators)
            for i, op in enumerate(e.ops):
                if isinstance(op, ORDERING):
                    for x in (operands[i], operands[i + 1]):
                        if self.maybe_none(x, facts):
                            self.report('none-ordering', _path_of(x), e, cfgnode, st)
        elif isinstance(e, ast.BinOp) and isinstance(e.op, (ast.Add, ast.Sub, ast.Mult, ast.Div, ast.FloorDiv, ast.Mod)):
            if isinstance(e.op, ast.Mod) and isinstance(e.left, ast.Constant) and isinstance(e.left.value, (str, bytes)):
                return
            for x in (e.left, e.right):
                if self.maybe_none(x, facts):
                    self.report('none-arith', _path_of(x), e, cfgnode, st)
        elif isinstance(e, ast.UnaryOp) and isinstance(e.op, ast.USub):
            if self.maybe_none(e.operand, facts):
                self.report('none-arith', _path_of(e.operand), e, cfgnode, st)
        elif isinstance(e, ast.Call):
            d = dotted(e.func)
            if d in ('time.sleep',) and e.args and self.maybe_none(e.args[0], facts):
                self.report('none-sleep', _path_of(e.args[0]), e, cfgnode, st)
        elif isinstance(e, ast.Subscript) and isinstance(e.slice, ast.Slice):
            for x in (e.slice.lower, e.slice.upper):
                if isinstance(x, ast.UnaryOp) and isinstance(x.op, ast.USub) and self.maybe_none(x.operand, facts):
                    pass   # reported by the UnaryOp visit

    def report(self, kind, name, node, cfgnode, st):
        key = (kind, name, getattr(node, 'lineno', 0), getattr(node, 'col_offset', 0))
        if key in self._seenf:
            return
        self._seenf.add(key)
        self.findings.append(Finding(kind, name, node, cfgnode, (cfgnode, st)))

    # -------------------------------------------------------------- transfer
    def node_exprs(self, n):
        a = n.ast
        if a is None:
            return [], []
        if n.kind == 'test':
            return [a], []
        if n.kind == 'for':
            return [a.iter], [a.target]
        if n.kind == 'with':
            return [i.context_expr for i in a.items], [i.optional_vars for i in a.items if i.optional_vars is not None]
        if n.kind == 'except':
            return ([a.type] if a.type is not None else []), []
        if isinstance(a, (ast.FunctionDef, ast.AsyncFunctionDef, ast.ClassDef)):
            return [], []
        if isinstance(a, ast.Assign):
            return [a.value], list(a.targets)
        if isinstance(a, ast.AugAssign):
            return [a.target_load if hasattr(a, 'target_load') else a.value], [a.target]
        if isinstance(a, ast.AnnAssign):
            return ([a.value] if a.value is not None else []), [a.target]
        if isinstance(a, (ast.Expr, ast.Return)):
            return ([a.value] if a.value is not None else []), []
        if isinstance(a, ast.Raise):
            return [x for x in (a.exc, a.cause) if x is not None], []
        if isinstance(a, ast.Assert):
            return [a.test], []
        if isinstance(a, ast.Delete):
            return [], []
        return [], []

    def transfer(self, n, st):
        """returns dict label-class -> state; 'in' state goes along exc edges"""
        defined, facts = st
        exprs, targets = self.node_exprs(n)
        for e in exprs:
            self.walk_expr(e, defined, facts, n, st)
        a = n.ast
        if n.kind == 'stmt' and isinstance(a, ast.AugAssign):
            # x op= e reads x first
            self.walk_expr(ast.copy_location(ast.Name(id=a.target.id, ctx=ast.Load()), a.target)
                           if isinstance(a.target, ast.Name) else None, defined, facts, n, st)
            if self.noneable is not None and isinstance(a.target, (ast.Name, ast.Attribute)) and self.maybe_none(a.target, facts):
                self.report('none-arith', _path_of(a.target), a, n, st)
        nd, nf = defined, facts
        # subscript / attribute targets are evaluated too
        for t in targets:
            for sub in ast.walk(t):
                if isinstance(sub, ast.Subscript):
                    self.walk_expr(sub.value, defined, facts, n, st)
                    self.walk_expr(sub.slice, defined, facts, n, st)
        flat = []
        for t in targets:
            stack = [t]
            while stack:
                x = stack.pop()
                if isinstance(x, (ast.Tuple, ast.List)):
                    stack.extend(x.elts)
                elif isinstance(x, ast.Starred):
                    stack.append(x.value)
                else:
                    flat.append(x)
        for t in flat:
            p = _path_of(t)
            if isinstance(t, ast.Name):
                nd = nd | {t.id}
            if p:
                nf = kill(nf, p)
                if n.kind == 'stmt' and isinstance(a, ast.Assign) and len(a.targets) == 1 and a.targets[0] is t:
                    vf = value_fact(a.value)
                    if vf is None:
                        # copy: x = y  /  x = self.attr
                        sp = _path_of(a.value)
                        if sp:
                            sf = dict(nf).get(sp)
                            if sf in ('none', 'notnone', 'truthy'):
                                vf = sf
                    if vf is None and isinstance(a.value, ast.Name):
                        # a module-level constant (`_NO_TIMEOUT = 1e6`): bound once at module level to a literal that is not None
                        vf = self._module_const_fact(a.value.id)
                    if vf:
                        nf = add_facts(nf, [(p, vf)])
                elif n.kind == 'stmt' and isinstance(a, ast.AugAssign):
                    nf = add_facts(nf, [(p, 'notnone')])
        if n.kind == 'stmt' and isinstance(a, (ast.FunctionDef, ast.AsyncFunctionDef, ast.ClassDef)):
            nd = nd | {a.name}
        if n.kind == 'stmt' and isinstance(a, (ast.Import, ast.ImportFrom)):
            nd = nd | set((al.asname or al.name).split('.')[0] for al in a.names)
        if n.kind == 'stmt' and isinstance(a, ast.Delete):
            for t in a.targets:
                if isinstance(t, ast.Name):
                    nd = nd - {t.id}
        if n.kind == 'except' and a.name:
            nd = nd | {a.name}
        return (frozenset(nd), nf)

    def relevant(self, ref):
        """keep only facts about paths worth tracking (None-tested names and
        the None-able candidates): bounds the number of abstract states"""
        return [(p, f) for p, f in ref if p in self.tracked]

    def _tracked(self):
        out = set(self.noneable or ())
        for a in self.none_attrs:
            out.add('self.' + a)
            out.add('spawn.' + a)
            out.add('self.spawn.' + a)
        for n in iter_nodes(self.fi.node):
            if isinstance(n, ast.Compare) and len(n.ops) == 1 and isinstance(n.ops[0], (ast.Is, ast.IsNot)) \
                    and isinstance(n.comparators[0], ast.Constant) and n.comparators[0].value is None:
                p = _path_of(n.left)
                if p:
                    out.add(p)
        # names whose truthiness guards a conditional definition
        for n in iter_nodes(self.fi.node):
            if isinstance(n, ast.If):
                t = n.test
                while isinstance(t, ast.UnaryOp) and isinstance(t.op, ast.Not):
                    t = t.operand
                p = _path_of(t)
                if p and any(isinstance(x, (ast.Assign, ast.For, ast.With)) for s in n.body + n.orelse for x in ast.walk(s)):
                    out.add(p)
        return out

    def run(self):
        g = self.g
        self.tracked = self._tracked()
        init = (frozenset(self.params), ())
        # states per node: facts -> definitely-bound names (intersection over paths with the same facts)
        self.states = {g.entry: {(): frozenset(self.params)}}
        dirty = {g.entry: {()}}
        work = [g.entry]
        while work:
            n = work.pop()
            keys = dirty.pop(n, set())
            cur_n = self.states.get(n, {})
            for facts in keys:
                if facts not in cur_n:
                    continue
                defined = cur_n[facts]
                st = (defined, facts)
                out = self.transfer(n, st)
                out = (out[0], tuple(x for x in out[1] if x[0] in self.tracked))
                for s, lab in n.succ:
                    if lab == 'exc':
                        cand = st
                    elif n.kind == 'test' and lab in ('true', 'false'):
                        ref = self.relevant(refine(n.ast, lab == 'true'))
                        if contradicts(out[1], ref):
                            continue
                        cand = (out[0], add_facts(out[1], ref))
                    else:
                        cand = out
                    cur = self.states.setdefault(s, {})
                    cd, cf = cand
                    changed = False
                    if cf not in cur:
                        if len(cur) >= MAX_STATES:
                            raise AnalysisError('nullness: too many states in %s' % self.fi.qual)
                        cur[cf] = cd
                        self.prev[(s, (cd, cf))] = (n, st)
                        changed = True
                    else:
                        nd = cur[cf] & cd
                        if nd != cur[cf]:
                            cur[cf] = nd
                            self.prev[(s, (nd, cf))] = (n, st)
                            changed = True
                    if changed:
                        dirty.setdefault(s, set()).add(cf)
                        if s not in work:
                            work.append(s)
        return self

    def witness(self, finding):
        key = finding.state
        path = []
        seen = set()
        while key in self.prev and key not in seen:
            seen.add(key)
            path.append(key[0])
            key = self.prev[key]
        path.append(self.g.entry)
        path.reverse()
        return self.g.describe_path(path)


def unbound_uses(fi):
    """[(name, node, witness path text)] possibly-unbound local uses."""
    fl = Flow(fi).run()
    return [(f.name, f.node, fl.witness(f)) for f in fl.findings if f.kind == 'unbound']


def noneable_names(fi, none_attrs=()):
    """Locals / parameters the code itself believes may be None: parameters
    defaulting to None, names compared with None, names assigned None or copied
    from a None-able attribute (Engler-style belief inference)."""
    out = set()
    a = fi.node.args
    pos = a.posonlyargs + a.args
    defaults = [None] * (len(pos) - len(a.defaults)) + list(a.defaults)
    for p, d in zip(pos, defaults):
        if isinstance(d, ast.Constant) and d.value is None:
            out.add(p.arg)
        if p.arg == 'timeout':
            out.add(p.arg)
    for p, d in zip(a.kwonlyargs, a.kw_defaults):
        if isinstance(d, ast.Constant) and d.value is None:
            out.add(p.arg)
    for n in iter_nodes(fi.node):
        if isinstance(n, ast.Compare) and len(n.ops) == 1 and isinstance(n.ops[0], (ast.Is, ast.IsNot)) \
                and isinstance(n.comparators[0], ast.Constant) and n.comparators[0].value is None:
            p = _path_of(n.left)
            if p:
                out.add(p)
        if isinstance(n, ast.Assign) and len(n.targets) == 1 and isinstance(n.targets[0], ast.Name):
            if isinstance(n.value, ast.Constant) and n.value.value is None:
                out.add(n.targets[0].id)
            sp = _path_of(n.value)
            if sp and '.' in sp and sp.split('.')[-1] in none_attrs:
                out.add(n.targets[0].id)
    return out


def none_misuses(fi, none_attrs=()):
    cand = noneable_names(fi, none_attrs)
    fl = Flow(fi, noneable=cand, none_attrs=none_attrs).run()
    return [(f.kind, f.name, f.node, fl.witness(f)) for f in fl.findings if f.kind.startswith('none-')], cand

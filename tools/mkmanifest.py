#!/usr/bin/env python3
"""Regenerate /verif/MANIFEST.json from the property modules that exist."""
import importlib, json, os, sys
here = os.path.dirname(os.path.dirname(os.path.abspath(__file__)))
sys.path.insert(0, here)
ALL = ['C%02d' % i for i in range(1, 21)]
NA_REASONS = {}
na_path = os.path.join(here, 'tools', 'not_applicable.json')
if os.path.exists(na_path):
    NA_REASONS = json.load(open(na_path))
checks, na = [], []
for pid in ALL:
    try:
        m = importlib.import_module('sa.props.%s' % pid.lower())
    except ImportError:
        m = None
    if m is None or getattr(m, 'NOT_CLAIMED', None):
        na.append({'property_id': pid, 'reason': NA_REASONS.get(pid) or getattr(m, 'NOT_CLAIMED', None)
                   or 'static check not built yet in this round (see DESIGN.md section 3 for the planned clauses)'})
        continue
    checks.append({
        'property_id': pid,
        'quick_cmd': './check %s --tier quick' % pid,
        'thorough_cmd': './check %s --tier thorough' % pid,
        'evidence_file': 'evidence/%s.json' % pid,
        'replay_cmd_template': './check %s --replay {path}' % pid,
        'engine': 'sa',
        'level_claimed': {'category': 'other', 'text': m.LEVEL_TEXT, 'design_ref': 'DESIGN.md section 3, %s' % pid},
        'level_note': m.LEVEL_NOTE,
        'technique': m.TECHNIQUE,
    })
man = {
    'version': 1,
    'setup_cmd': 'if [ -x /venv/bin/python ]; then /venv/bin/python -m compileall -q sa >/dev/null; else python3 -m compileall -q sa >/dev/null; fi; mkdir -p evidence out',
    'hooks': {'guard': 'PEXPECT_VERIF', 'enable': 'none required: the checks read source text only, /repo carries no instrumentation',
              'baseline_off_cmd': 'cd /repo && /venv/bin/python -m pytest -ra -q -p no:cacheprovider --timeout=900 --continue-on-collection-errors',
              'source_commits': [], 'add_only': True},
    'engines': [{'name': 'sa', 'path': 'sa/', 'serves_properties': [c['property_id'] for c in checks],
                 'kind_free_text': 'repository-specific static analysis on the Python AST: resolved program model (MRO, call resolution, aliases), hand-built statement CFG with path queries, dataflow/typestate, linear normal forms, table/automaton extraction; stdlib only; never imports or runs pexpect'}],
    'checks': checks,
    'not_applicable': na,
    'notes': 'Every check decides named structural clauses (necessary conditions) of its property from /repo\'s current source; exit 0 = all rule instances hold (open known findings printed as KNOWN-FINDING), exit 1 = VIOLATION with a specific construct, exit 2 = ANALYSIS-ERROR (anchor vanished / idiom unknown / below floor). See DESIGN.md.',
}
json.dump(man, open(os.path.join(here, 'MANIFEST.json'), 'w'), indent=1)
print('claimed', [c['property_id'] for c in checks], 'not_applicable', [x['property_id'] for x in na])

#!/usr/bin/env python3
"""Soundness guards of the canonical form: small synthetic modules on which a rewrite of sa/canon.py / sa/inline.py MUST or MUST NOT
happen.  A rewrite that fired where it must not would make the rules read a program that behaves differently from the one in the
file -- the one way the canonical form could hide a real violation.

  tools/canontest.py        prints one line per case, exits 1 if any expectation fails

Each case: module source, function name, substrings that must / must not occur in the unparsed canonical function.
"""
import ast
import os
import sys
import textwrap

sys.path.insert(0, os.path.dirname(os.path.dirname(os.path.abspath(__file__))))
from sa import canon      # noqa: E402

CASES = [
    # ---- N48 field aliases
    ('N48 lookup-once', '''
        class K:
            def get(self, k):
                t = self.tab
                if k in t:
                    return t[k]
                return None
     ''', 'get', ['in self.tab', 'self.tab[k]'], ['t = ']),
    ('N48 not across a call', '''
        class K:
            def get(self, k):
                t = self.tab
                self.reload()
                return t[k]
     ''', 'get', ['t = self.tab', 't[k]'], []),
    ('N48 not across a store to the field', '''
        class K:
            def swap(self):
                t = self.tab
                self.tab = {}
                return t
     ''', 'swap', ['t = self.tab', 'return t'], []),
    ('N48 not across a store through another receiver', '''
        class K:
            def swap(self, other):
                t = self.tab
                other.tab = {}
                return t
     ''', 'swap', ['t = self.tab'], []),
    ('N48 reads in the arguments of the last call', '''
        class K:
            def blank(self):
                r = self.cur_r
                self.fill(r, 1, r, self.cols)
     ''', 'blank', ['self.fill(self.cur_r, 1, self.cur_r, self.cols)'], ['r = ']),
    ('N48 not when an argument evaluated earlier makes a call', '''
        class K:
            def blank(self):
                r = self.cur_r
                self.fill(self.advance(), r)
     ''', 'blank', ['r = self.cur_r'], []),
    ('N48 not when the read is in an assignment target evaluated after the call', '''
        class K:
            def put(self, k):
                t = self.tab
                t[k] = self.compute(k)
     ''', 'put', ['t = self.tab'], []),
    ('N48 not for a local used inside a loop that makes calls', '''
        class K:
            def run(self, xs):
                n = self.count
                for x in xs:
                    self.step(x)
                    if n:
                        self.note(n)
     ''', 'run', ['n = self.count'], []),
    ('N48 read in a nested block, only a standard-library call in between', '''
        class K:
            def found(self, result):
                setter = self.fut.set_result
                if self.fut.done():
                    return
                setter(result)
                self.transport.pause_reading()
     ''', 'found', ['self.fut.set_result(result)'], ['setter']),
    ('N48 not when a package call may run before the nested read', '''
        class K:
            def rearm(self):
                self.fut = self.make()
                return False

            def found(self, result):
                setter = self.fut.set_result
                if self.rearm():
                    return
                setter(result)
     ''', 'found', ['setter = self.fut.set_result', 'setter(result)'], []),
    ('N48 not when an earlier iteration of the loop makes a call', '''
        class K:
            def run(self, xs):
                t = self.tab
                for x in xs:
                    if x in t:
                        self.step(x)
     ''', 'run', ['t = self.tab'], []),
    ('N43 not through a field that is re-bound later in the package', '''
        class K:
            def reset(self):
                self.store = self.make()

            def f(self, x):
                w = self.store.write
                self.reset()
                w(x)
     ''', 'f', ['w = self.store.write', 'w(x)'], []),
    # ---- N49 copy coalescing
    ('N49 helper copy of a dead variable', '''
        class K:
            def pump(self, esc):
                while True:
                    data = self.read()
                    d2 = data
                    i = d2.find(esc)
                    if i != -1:
                        d2 = d2[:i]
                        self.write(d2)
                        break
                    self.write(d2)
     ''', 'pump', ['data = data[:i]', 'self.write(data)'], ['d2']),
    ('N49 not when the original is read afterwards', '''
        class K:
            def pump(self, data, i):
                d2 = data
                d2 = d2[:i]
                self.write(d2)
                self.log(data)
     ''', 'pump', ['d2 = data', 'self.log(data)'], []),
    ('N49 not when the original is read on the next iteration', '''
        class K:
            def pump(self, data, n):
                while n:
                    d2 = data
                    d2 = d2[1:]
                    self.write(d2)
                    n -= 1
     ''', 'pump', ['d2 = data'], []),
    ('N49 not when a handler reads the original', '''
        class K:
            def pump(self, data, i):
                try:
                    d2 = data
                    d2 = d2[:i]
                    self.write(d2)
                except OSError:
                    self.log(data)
     ''', 'pump', ['d2 = data', 'self.log(data)'], []),
    # ---- N38 jump threading through try: into the else part, never into the body
    ('N38 the threaded test is not covered by the handlers', '''
        class K:
            def take(self):
                try:
                    item = self.q.get_nowait()
                except Empty:
                    item = None
                if item is None:
                    self.idle()
                else:
                    self.use(item)
     ''', 'take', ['self.use(item)'], ['get_nowait()\n        if', 'get_nowait()\n        self.']),
    # ---- short-circuit chains calling helpers
    ('inline: or-chain of helper calls keeps the order and the short circuit', '''
        class K:
            def any_of(self, a, b):
                return self._try(a) or self._try(b)

            def _try(self, x):
                self.send(x)
                i = self.wait()
                return i != 0
     ''', 'any_of', ['self.send(a)', 'self.send(b)', 'return True'], ['_try(']),
    ('inline: and-chain', '''
        class K:
            def both(self, a, b):
                return self._try(a) and self._try(b)

            def _try(self, x):
                self.send(x)
                i = self.wait()
                return i != 0
     ''', 'both', ['self.send(a)', 'self.send(b)', 'return False'], ['_try(']),
    # ---- helpers with an arm that falls through
    ('inline: arm that may fall through repeats the rest', '''
        class K:
            def go(self, data, esc):
                if self._fwd(data, esc):
                    return 1
                return 0

            def _fwd(self, data, esc):
                if esc is not None:
                    i = data.find(esc)
                    if i != -1:
                        self.write(data[:i])
                        return True
                self.write(data)
                return False
     ''', 'go', ['self.write(data[:i])', 'self.write(data)'], ['_fwd(']),
    # ---- N31c comprehensions over constant tuples
    ('N31c names tuple', '''
        NAMES = ('pid', 'fd')

        class K:
            def lines(self):
                return [n + ': ' + str(getattr(self, n)) for n in NAMES]
     ''', 'lines', ['self.pid', 'self.fd'], ['for n in']),
    ('N31c not when the tuple is re-bound', '''
        NAMES = ('pid', 'fd')
        NAMES = NAMES + ('x',)

        class K:
            def lines(self):
                return [str(getattr(self, n)) for n in NAMES]
     ''', 'lines', ['for n in NAMES'], []),
    # ---- N47 named constants
    ('N47 not when the module constant is re-bound in a function', '''
        LIMIT = 10

        def raise_limit():
            global LIMIT
            LIMIT = 20

        def over(n):
            return n > LIMIT
     ''', 'over', ['LIMIT'], []),
    # ---- older rules: guards
    ('N24 len of a list that is extended afterwards is not propagated', '''
        def f(buf, x):
            n = len(buf)
            buf.append(x)
            return n
     ''', 'f', ['n = len(buf)', 'return n'], []),
    ('N24 not for a local bound in a loop', '''
        def f(xs):
            out = []
            for x in xs:
                k = (x, 1)
                out.append(k)
            return out
     ''', 'f', [], ['zzz']),
    ('N39 an unread call result keeps the call', '''
        class K:
            def f(self):
                x = self.step()
                return 1
     ''', 'f', ['self.step()'], ['x = ']),
    ('N43 bound-method alias not across a re-binding of the method', '''
        class K:
            def f(self, other):
                m = self.meth
                self.meth = other
                return m()
     ''', 'f', ['m = self.meth', 'return m()'], []),
    ('N43 bound-method alias not across a re-binding of the receiver', '''
        class K:
            def f(self, a, b):
                m = a.meth
                a = b
                return m()
     ''', 'f', ['m()'], ['return a.meth()', 'return b.meth()']),
    ('N46 a dict that is stored into afterwards is not a table', '''
        def f(k):
            d = {1: 'a'}
            d[2] = 'b'
            return d.get(k)
     ''', 'f', ['d.get(k)'], []),
    ('N46 a dict handed to a call is not a table', '''
        def f(k, g):
            d = {1: 'a'}
            g(d)
            return d.get(k)
     ''', 'f', ['d.get(k)'], []),
    ('N42 a marker test on the result of a function that may return the marker stays', '''
        _NONE = object()

        def pick(q):
            if q:
                return q[0]
            return _NONE

        def f(q):
            x = pick(q)
            if x is _NONE:
                return 0
            return 1
     ''', 'f', ['return 0', 'return 1'], []),
    ('N34 webs: not when a read may see either binding', '''
        class K:
            def f(self, c):
                s = self.a
                if c:
                    s = self.b
                return s.read()
     ''', 'f', ['s.read()'], ['self.a.read()', 'self.b.read()']),
    ('N36 min clamp', '''
        def f(x, e):
            x = min(x, e)
            return x
     ''', 'f', [], ['zzz']),
    ('N5/N44 a temp read after an intervening call is not folded into the call', '''
        class K:
            def f(self):
                t = self.pos
                self.move()
                return self.at(t)
     ''', 'f', ['t = self.pos', 'self.at(t)'], []),
    ('N13b x = None under x is None only', '''
        def f(x):
            if x is not None:
                x = None
            return x
     ''', 'f', ['x = None'], []),
    # ---- N50 constant-trip collection loops / lists read by constant index
    ('N50 collection loop written out', '''
        class K:
            def f(self):
                out = []
                for _ in range(3):
                    self.poke()
                    out.append(self.peek())
                a, b = out[-2:]
                return a == b
     ''', 'f', ['self.poke()'], ['for _', 'out = []', 'out.append']),
    ('N50 not when the list escapes', '''
        class K:
            def f(self):
                out = []
                for _ in range(3):
                    out.append(self.peek())
                self.keep(out)
                return out[0]
     ''', 'f', ['out.append', 'self.keep(out)'], ['out__']),
    ('N50 not when the loop may stop early', '''
        class K:
            def f(self):
                out = []
                for _ in range(3):
                    out.append(self.peek())
                    if self.done():
                        break
                return out[0]
     ''', 'f', ['for _ in range(3)', 'break'], ['out__']),
    ('N50 not when the loop variable is read', '''
        class K:
            def f(self):
                out = []
                for i in range(3):
                    out.append(self.peek(i))
                return out[0]
     ''', 'f', ['for i in range(3)'], ['out__']),
    ('N50 not when an index may be out of range', '''
        class K:
            def f(self):
                out = []
                out.append(self.peek())
                out.append(self.peek())
                return out[2]
     ''', 'f', ['out.append', 'out[2]'], ['out__']),
    ('N50 not when an append is conditional', '''
        class K:
            def f(self, c):
                out = []
                out.append(self.peek())
                if c:
                    out.append(self.peek())
                return out[-1]
     ''', 'f', ['out.append', 'out[-1]'], ['out__']),
    ('N50 not when the trip count is not a constant', '''
        class K:
            def f(self, n):
                out = []
                for _ in range(n):
                    out.append(self.peek())
                return out[0]
     ''', 'f', ['for _ in range(n)'], ['out__']),
]


def canon_of(src, fname):
    trees = {'m': ast.parse(textwrap.dedent(src))}
    canon.canonicalise(trees)
    for n in ast.walk(trees['m']):
        if isinstance(n, (ast.FunctionDef, ast.AsyncFunctionDef)) and n.name == fname:
            return ast.unparse(n)
    raise SystemExit('function %s not found' % fname)


def main():
    bad = 0
    for name, src, fname, must, must_not in CASES:
        try:
            text = canon_of(src, fname)
        except Exception as e:      # noqa
            print('ERROR  %s: %r' % (name, e))
            bad += 1
            continue
        miss = [m for m in must if m not in text]
        extra = [m for m in must_not if m in text]
        if miss or extra:
            bad += 1
            print('FAIL   %s' % name)
            for m in miss:
                print('         missing: %s' % m)
            for m in extra:
                print('         present: %s' % m)
            print(textwrap.indent(text, '         | '))
        else:
            print('ok     %s' % name)
    print('%d cases, %d failed' % (len(CASES), bad))
    return 1 if bad else 0


if __name__ == '__main__':
    sys.exit(main())

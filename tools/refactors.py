#!/usr/bin/env python3
"""Independently written behaviour-preserving refactorings under /verif/refactored/<id>/ (patch.diff, meta.json):
every check must stay silent on each of them.

  import <worktree> <RID>     copy _refactor/{patchX.diff,meta.json} into refactored/<RID>-X/
  import-fixed <worktree> <PROP>   copy _seed/fixed{A,B}.diff (repaired twins of seeded/<PROP>-E/-F) into refactored/X<nn>-{E,F}/
  check  <id>|<prefix>*|all [--suite]   apply the patch to a scratch worktree of /repo HEAD, run every claimed check with
                              --repo <scratch>; print anything that is not exit 0; with --suite also run the
                              pinned test-suite on the refactored tree (to confirm that it IS behaviour-preserving
                              as far as the tests can tell)
  table

Scratch worktrees live under /tmp/seedrun and are removed after use.  /repo itself is never modified.
"""
import json
import os
import shutil
import sys
import time

sys.path.insert(0, os.path.dirname(os.path.abspath(__file__)))
from seeded import sh, scratch, drop, claimed, PY, DESELECT, HERE      # noqa: E402

ROOT = os.path.join(HERE, 'refactored')


def ids():
    return sorted(d for d in os.listdir(ROOT) if os.path.isdir(os.path.join(ROOT, d))) if os.path.isdir(ROOT) else []


def load_meta(i):
    p = os.path.join(ROOT, i, 'meta.json')
    return json.load(open(p)) if os.path.exists(p) else {}


def save_meta(i, m):
    json.dump(m, open(os.path.join(ROOT, i, 'meta.json'), 'w'), indent=1, sort_keys=True)


def cmd_import(wt, rid):
    sd = os.path.join(wt, '_refactor')
    meta_all = {}
    try:
        meta_all = json.load(open(os.path.join(sd, 'meta.json')))
    except Exception:
        pass
    for x in 'ABCDEF':
        pf = os.path.join(sd, 'patch%s.diff' % x)
        if not os.path.exists(pf):
            continue
        i = '%s-%s' % (rid, x)
        d = os.path.join(ROOT, i)
        os.makedirs(d, exist_ok=True)
        shutil.copy(pf, os.path.join(d, 'patch.diff'))
        a = meta_all.get(x, {}) if isinstance(meta_all, dict) else {}
        m = load_meta(i)
        m.update({'id': i, 'summary': a.get('summary'), 'technique': a.get('technique'), 'functions': a.get('functions'),
                  'author': 'independent sub-agent asked for an exactly behaviour-preserving refactoring', 'author_tests_run': a.get('tests_run')})
        save_meta(i, m)
        print('imported', i)


def cmd_import_fixed(wt, prop, rnd=3):
    """repaired twins of the round-3 seeded changes: <worktree>/_seed/fixed{A,B}.diff (the clean-up of seeded/<prop>-E/-F with its
    slip repaired by an independent sub-agent) -> refactored/X<nn>-{E,F}/"""
    sd = os.path.join(wt, '_seed')
    try:
        fx = json.load(open(os.path.join(sd, 'fixed.json')))
    except Exception:
        fx = {}
    for x, y in ((('A', 'E'), ('B', 'F')) if rnd == 3 else (('A', 'G'), ('B', 'H'))):
        pf = os.path.join(sd, 'fixed%s.diff' % x)
        if not os.path.exists(pf):
            continue
        i = '%s%s-%s' % ('X' if rnd == 3 else 'W', prop[1:], y)
        d = os.path.join(ROOT, i)
        os.makedirs(d, exist_ok=True)
        shutil.copy(pf, os.path.join(d, 'patch.diff'))
        a = fx.get(x, {}) if isinstance(fx, dict) else {}
        m = load_meta(i)
        m.update({'id': i, 'summary': 'the clean-up of seeded/%s-%s with its slip repaired: %s' % (prop, y, a.get('repair')),
                  'other_differences_found': a.get('other_differences_found'), 'twin_of': '%s-%s' % (prop, y),
                  'author': 'independent sub-agent given the seeded patch, its description and its demonstration, asked to keep the clean-up and repair the slip',
                  'author_tests_run': a.get('tests_run')})
        save_meta(i, m)
        print('imported', i)


def cmd_check(i, suite=False):
    d = scratch('r-%s-%d' % (i, os.getpid()))
    try:
        rca, outa = sh('git apply %s' % os.path.join(ROOT, i, 'patch.diff'), cwd=d)
        if rca:
            print(i, 'PATCH DOES NOT APPLY', outa[-200:])
            return
        rcc, outc = sh([PY, '-m', 'compileall', '-q', 'pexpect'], cwd=d)
        res = {}
        for pid in claimed():
            rc, out = sh([os.path.join(HERE, 'check'), pid, '--repo', d, '--no-evidence'], timeout=600)
            hits = []
            lines = out.splitlines()
            for k, l in enumerate(lines):
                if l.startswith('VIOLATION'):
                    hits.append(lines[k + 1].strip()[:400] if k + 1 < len(lines) else l)
                elif l.startswith('ANALYSIS-ERROR'):
                    hits.append(l[:400])
            res[pid] = {'exit': rc, 'hits': hits}
        m = load_meta(i)
        alarms = sorted(p for p, r in res.items() if r['exit'] == 1)
        errs = sorted(p for p, r in res.items() if r['exit'] == 2)
        m['result'] = {'compiles': rcc == 0, 'alarms': alarms, 'analysis_error': errs,
                       'details': dict((p, r['hits'][:3]) for p, r in res.items() if r['exit'] != 0),
                       'checked_at_commit': sh('git -C %s rev-parse --short HEAD' % HERE)[1].strip()}
        if suite:
            cmd = ("unshare -n sh -c 'ip link set lo up; %s -m pytest -q -p no:cacheprovider --timeout=900 %s tests'"
                   % (PY, ' '.join('--deselect ' + x for x in DESELECT)))
            t0 = time.time()
            rcs, outs = sh(cmd, cwd=d, timeout=3000)
            tail = [l for l in outs.strip().splitlines() if l.strip()][-1:] or ['']
            m['suite'] = {'exit': rcs, 'summary': tail[0][-200:], 'failed': [l for l in outs.splitlines() if l.startswith('FAILED')][:10],
                          'wall_s': round(time.time() - t0)}
        save_meta(i, m)
        print(i, 'silent' if not alarms and not errs else 'ALARM %s ERR %s' % (alarms, errs), ('suite=%s' % m['suite']['exit']) if suite else '')
        for p in alarms + errs:
            for h in res[p]['hits'][:2]:
                print('     %s %s' % (p, h[:260]))
    finally:
        drop(d)


def cmd_table():
    for i in ids():
        m = load_meta(i)
        r = m.get('result', {})
        print('%-7s alarms=%-10s err=%-10s suite=%-4s %s' % (i, ','.join(r.get('alarms', [])), ','.join(r.get('analysis_error', [])),
                                                            (m.get('suite') or {}).get('exit'), (m.get('summary') or '')[:90]))


def main():
    a = sys.argv[1:]
    if not a:
        print(__doc__)
    elif a[0] == 'import':
        cmd_import(a[1], a[2])
    elif a[0] == 'import-fixed':
        cmd_import_fixed(a[1], a[2], int(a[a.index('--round') + 1]) if '--round' in a else 3)
    elif a[0] == 'check':
        todo = ids() if a[1] == 'all' else ([i for i in ids() if i.startswith(a[1][:-1])] if a[1].endswith('*') else [a[1]])
        if len(todo) > 1 and '--suite' not in a:
            import multiprocessing as mp
            jobs = int(a[a.index('--jobs') + 1]) if '--jobs' in a else 8
            with mp.get_context('fork').Pool(jobs) as pool:
                pool.map(cmd_check, todo, chunksize=1)
        else:
            for i in todo:
                cmd_check(i, '--suite' in a)
    elif a[0] == 'table':
        cmd_table()


if __name__ == '__main__':
    main()

#!/usr/bin/env python3
"""Manage the seeded changes under /verif/seeded/<id>/.

  import  <worktree> <PROP>      copy _seed/{patchX.diff,demoX.py,meta.json} into seeded/<PROP>-X/
  verify  <id>|all [--suite]     confirm in a scratch worktree: demo passes clean, fails with the patch;
                                 with --suite also run the pinned test-suite with the patch applied
  check   <id>|all               apply the patch to a scratch worktree of /repo and run every claimed check
                                 against it (./check Cxx --repo <scratch>); record which clauses fire
  table                          print the detection matrix

Scratch worktrees live under /tmp/seedrun and are removed after use.  /repo itself is never modified.
"""
import json
import os
import shutil
import subprocess
import sys
import time

HERE = os.path.dirname(os.path.dirname(os.path.abspath(__file__)))
SEEDED = os.path.join(HERE, 'seeded')
SCRATCH = '/tmp/seedrun'
PY = '/venv/bin/python'
DESELECT = ['tests/test_replwrap.py::REPLWrapTestCase::test_existing_spawn',
            'tests/test_replwrap.py::REPLWrapTestCase::test_pager_as_cat',
            'tests/test_replwrap.py::REPLWrapTestCase::test_zsh',
            'tests/test_performance.py::PerformanceTestCase::test_large_stdout_stream']


def sh(cmd, cwd=None, timeout=1800, env=None):
    p = subprocess.run(cmd, shell=isinstance(cmd, str), cwd=cwd, stdout=subprocess.PIPE, stderr=subprocess.STDOUT,
                       timeout=timeout, env=env)
    return p.returncode, p.stdout.decode('utf-8', 'replace')


def ids():
    return sorted(d for d in os.listdir(SEEDED) if os.path.isdir(os.path.join(SEEDED, d)))


def scratch(name):
    os.makedirs(SCRATCH, exist_ok=True)
    d = os.path.join(SCRATCH, name)
    if os.path.exists(d):
        sh('git -C /repo worktree remove --force %s' % d)
        shutil.rmtree(d, ignore_errors=True)
    rc, out = sh('git -C /repo worktree add -q --detach %s HEAD' % d)
    if rc:
        raise SystemExit('worktree add failed: ' + out)
    return d


def drop(d):
    sh('git -C /repo worktree remove --force %s' % d)
    shutil.rmtree(d, ignore_errors=True)


def load_meta(i):
    p = os.path.join(SEEDED, i, 'meta.json')
    return json.load(open(p)) if os.path.exists(p) else {}


def save_meta(i, m):
    json.dump(m, open(os.path.join(SEEDED, i, 'meta.json'), 'w'), indent=1, sort_keys=True)


def cmd_import(wt, prop, rnd=1):
    sd = os.path.join(wt, '_seed')
    meta_all = {}
    mp = os.path.join(sd, 'meta.json')
    if os.path.exists(mp):
        try:
            meta_all = json.load(open(mp))
        except Exception:
            meta_all = {}
    for x in 'AB':
        pf = os.path.join(sd, 'patch%s.diff' % x)
        df = os.path.join(sd, 'demo%s.py' % x)
        if not (os.path.exists(pf) and os.path.exists(df)):
            continue
        i = '%s-%s' % (prop, {1: 'AB', 2: 'CD', 3: 'EF', 4: 'GH', 5: 'IJ'}[rnd]['AB'.index(x)])
        d = os.path.join(SEEDED, i)
        os.makedirs(d, exist_ok=True)
        shutil.copy(pf, os.path.join(d, 'patch.diff'))
        shutil.copy(df, os.path.join(d, 'demo.py'))
        m = load_meta(i)
        a = meta_all.get(x, {}) if isinstance(meta_all, dict) else {}
        m.update({'id': i, 'property': prop, 'summary': a.get('summary'), 'needs': a.get('needs'),
                  'function': a.get('function'), 'round': rnd, 'author': 'independent sub-agent given only the property text',
                  'author_tests_run': a.get('tests_run')})
        save_meta(i, m)
        print('imported', i)


def cmd_verify(i, suite=False):
    d = scratch('v-%s-%d' % (i, os.getpid()))
    try:
        sd = os.path.join(SEEDED, i)
        os.makedirs(os.path.join(d, '_seed'), exist_ok=True)
        shutil.copy(os.path.join(sd, 'demo.py'), os.path.join(d, '_seed', 'demo.py'))
        m = load_meta(i)
        rc0, out0 = sh([PY, '_seed/demo.py'], cwd=d, timeout=300)
        rca, outa = sh('git apply %s' % os.path.join(sd, 'patch.diff'), cwd=d)
        if rca:
            m['verify'] = {'applies': False, 'detail': outa[-400:]}
            save_meta(i, m)
            print(i, 'PATCH DOES NOT APPLY', outa[-200:])
            return
        rcc, outc = sh([PY, '-m', 'compileall', '-q', 'pexpect'], cwd=d)
        rc1, out1 = sh([PY, '_seed/demo.py'], cwd=d, timeout=300)
        v = {'applies': True, 'compiles': rcc == 0, 'demo_clean_exit': rc0, 'demo_patched_exit': rc1,
             'demo_patched_tail': out1[-300:], 'ran': 'cd <scratch worktree of /repo HEAD>; python _seed/demo.py (clean: exit %d); '
             'git apply patch.diff; python _seed/demo.py (patched: exit %d)' % (rc0, rc1)}
        if suite:
            cmd = ("unshare -n sh -c 'ip link set lo up; %s -m pytest -q -p no:cacheprovider --timeout=900 %s tests'"
                   % (PY, ' '.join('--deselect ' + x for x in DESELECT)))
            t0 = time.time()
            rcs, outs = sh(cmd, cwd=d, timeout=3000)
            tail = [l for l in outs.strip().splitlines() if l.strip()][-1:] or ['']
            v['suite_exit'] = rcs
            v['suite_summary'] = tail[0][-200:]
            v['suite_failed'] = [l for l in outs.splitlines() if l.startswith('FAILED')][:10]
            v['suite_cmd'] = cmd
            v['suite_wall_s'] = round(time.time() - t0)
        m['verify'] = v
        save_meta(i, m)
        ok = rc0 == 0 and rc1 != 0 and (not suite or v.get('suite_exit') == 0)
        print(i, 'CONFIRMED' if ok else 'NOT-CONFIRMED', json.dumps({k: v[k] for k in v if k not in ('demo_patched_tail', 'ran', 'suite_cmd')}))
    finally:
        drop(d)


def claimed():
    man = json.load(open(os.path.join(HERE, 'MANIFEST.json')))
    return [c['property_id'] for c in man['checks']]


def cmd_check(i):
    d = scratch('c-%s-%d' % (i, os.getpid()))
    try:
        sd = os.path.join(SEEDED, i)
        rca, outa = sh('git apply %s' % os.path.join(sd, 'patch.diff'), cwd=d)
        if rca:
            print(i, 'PATCH DOES NOT APPLY')
            return
        res = {}
        for pid in claimed():
            rc, out = sh([os.path.join(HERE, 'check'), pid, '--repo', d, '--no-evidence'], timeout=600)
            hits = []
            lines = out.splitlines()
            for k, l in enumerate(lines):
                if l.startswith('VIOLATION'):
                    hits.append(lines[k + 1].strip()[:300] if k + 1 < len(lines) else l)
                elif l.startswith('ANALYSIS-ERROR'):
                    hits.append(l[:300])
            res[pid] = {'exit': rc, 'hits': hits}
        m = load_meta(i)
        own = m.get('property')
        fired = sorted(p for p, r in res.items() if r['exit'] == 1)
        errs = sorted(p for p, r in res.items() if r['exit'] == 2)
        m['detection'] = {'own_property_fires': own in fired, 'fired': fired, 'analysis_error': errs,
                          'details': dict((p, r['hits'][:3]) for p, r in res.items() if r['exit'] != 0),
                          'checked_at_commit': sh('git -C %s rev-parse --short HEAD' % HERE)[1].strip(),
                          'ran': 'git worktree of /repo HEAD + git apply patch.diff; ./check <each claimed property> --repo <scratch>'}
        save_meta(i, m)
        print(i, 'own=%s' % own, 'DETECTED' if own in fired else ('(other: %s)' % fired if fired else 'MISSED'),
              'errors=%s' % errs if errs else '')
    finally:
        drop(d)


def cmd_table():
    for i in ids():
        m = load_meta(i)
        v = m.get('verify', {})
        d = m.get('detection', {})
        conf = v.get('demo_clean_exit') == 0 and v.get('demo_patched_exit') not in (0, None)
        print('%-8s confirmed=%-5s suite=%-4s own=%-5s fired=%s err=%s  %s' % (
            i, conf, v.get('suite_exit'), d.get('own_property_fires'), ','.join(d.get('fired', [])),
            ','.join(d.get('analysis_error', [])), (m.get('summary') or '')[:70]))


def main():
    a = sys.argv[1:]
    if not a:
        print(__doc__)
        return
    if a[0] == 'import':
        cmd_import(a[1], a[2], int(a[a.index('--round') + 1]) if '--round' in a else 1)
    elif a[0] == 'verify':
        suite = '--suite' in a
        for i in (ids() if a[1] == 'all' else [a[1]]):
            cmd_verify(i, suite)
    elif a[0] == 'check':
        todo = ids() if a[1] == 'all' else [a[1]]
        if len(todo) > 1:
            import multiprocessing as mp
            jobs = int(a[a.index('--jobs') + 1]) if '--jobs' in a else 8
            with mp.get_context('fork').Pool(jobs) as pool:
                pool.map(cmd_check, todo, chunksize=1)
        else:
            cmd_check(todo[0])
    elif a[0] == 'table':
        cmd_table()


if __name__ == '__main__':
    main()

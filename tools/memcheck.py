#!/usr/bin/env python3
"""All committed external patches against all 20 checks, in memory (no worktrees): the fast form of
`tools/refactors.py check all` + `tools/seeded.py check all`.

  tools/memcheck.py refactored [--jobs N] [--repo DIR] [prefix ...]
        every refactored/<id>/patch.diff applied in memory to the tree, the package brought into canonical form ONCE and
        all 20 analyses run on it; prints every patch that is not silent (ALARM = a violation line, ERR = exit 2)
  tools/memcheck.py seeded [--jobs N] [--repo DIR] [prefix ...]
        the same for seeded/<id>/patch.diff; prints which checks report each change and compares with the
        detection recorded in its meta.json (own property / cross / exit 2)

  tools/memcheck.py compose [--jobs N] [--repo DIR] [refactoring-prefix ...]
        every seeded change on top of every refactoring that touches the same file (both applied in memory): the check
        recorded for the seeded change must still report it (exit 2 = the refactoring made the rule lose track: honest, but a miss)

Not a registered check; the registered thorough tier does the same per property (SELFTEST-PATCHES).
"""
import json
import multiprocessing as mp
import os
import re
import sys
import traceback

HERE = os.path.dirname(os.path.dirname(os.path.abspath(__file__)))
sys.path.insert(0, HERE)

ALL = ['C%02d' % i for i in range(1, 21)]


def one(args):
    kind, ident, root = args
    try:
        from sa.loader import Repo, AnalysisError
        from sa import report
        from sa.main import analyse
        from sa.selftest import _apply_unified
        ptxt = open(os.path.join(HERE, kind, ident, 'patch.diff'), 'rb').read().decode('utf-8', 'replace')
        paths = set(re.findall(r'(?m)^\+\+\+ b/(\S+)', ptxt))
        paths = set(p for p in paths if p.startswith('pexpect/') and p.endswith('.py'))
        if not paths:
            return (ident, 'skip', 'no package file', {}, {})
        srcs = {}
        for p_ in paths:
            fp = os.path.join(root, p_)
            if not os.path.exists(fp):
                return (ident, 'skip', 'file missing', {}, {})
            srcs[p_] = open(fp, 'rb').read().decode('utf-8')
        # (hunks for files outside the package -- tests, docs -- are ignored)
        blocks = re.split(r'(?m)^(?=diff --git )', ptxt)
        ptxt = ''.join(b for b in blocks if any(('+++ b/' + p_) in b for p_ in paths))
        new = _apply_unified(srcs, ptxt)
        if new is None:
            return (ident, 'skip', 'does not apply', {}, {})
        ov = {}
        for p_, txt in new.items():
            try:
                compile(txt, p_, 'exec')
            except SyntaxError:
                return (ident, 'skip', 'does not compile', {}, {})
            ov[os.path.basename(p_)[:-3]] = txt
        try:
            repo = Repo(root, overrides=ov)
        except AnalysisError as e:
            return (ident, 'err', 'loader: %s' % str(e)[:120], {}, dict((p, str(e)[:120]) for p in ALL))
        known = report.load_known()
        viol, errs = {}, {}
        for pid in ALL:
            run = analyse(pid, repo, 'quick')
            nv = [o for o in run.violations() if report.match_known(o, known) is None]
            if nv:
                viol[pid] = '%s-%s %s: %s' % (nv[0].prop, nv[0].clause, nv[0].unit, nv[0].what[:110])
            elif run.errors:
                errs[pid] = run.errors[0][:150]
        return (ident, 'ok', '', viol, errs)
    except Exception:
        return (ident, 'crash', traceback.format_exc()[-400:], {}, {})


def _load(kind, ident):
    ptxt = open(os.path.join(HERE, kind, ident, 'patch.diff'), 'rb').read().decode('utf-8', 'replace')
    paths = set(p for p in re.findall(r'(?m)^\+\+\+ b/(\S+)', ptxt) if p.startswith('pexpect/') and p.endswith('.py'))
    blocks = re.split(r'(?m)^(?=diff --git )', ptxt)
    return ''.join(b for b in blocks if any(('+++ b/' + p_) in b for p_ in paths)), paths


def pair(args):
    r, s_, prop, root = args
    try:
        from sa.loader import Repo, AnalysisError
        from sa import report
        from sa.main import analyse
        from sa.selftest import _apply_unified
        rt, rp = _load('refactored', r)
        st, sp = _load('seeded', s_)
        srcs = {}
        for p_ in rp | sp:
            fp = os.path.join(root, p_)
            if not os.path.exists(fp):
                return (r, s_, prop, 'skip', 'file missing')
            srcs[p_] = open(fp, 'rb').read().decode('utf-8')
        n1 = _apply_unified(dict((k, v) for k, v in srcs.items() if k in rp), rt)
        if n1 is None:
            return (r, s_, prop, 'skip', 'refactoring does not apply')
        srcs.update(n1)
        n2 = _apply_unified(dict((k, v) for k, v in srcs.items() if k in sp), st)
        if n2 is None:
            return (r, s_, prop, 'skip', 'seed does not apply on top')
        srcs.update(n2)
        ov = {}
        for p_, txt in srcs.items():
            try:
                compile(txt, p_, 'exec')
            except SyntaxError:
                return (r, s_, prop, 'skip', 'does not compile')
            ov[os.path.basename(p_)[:-3]] = txt
        try:
            repo = Repo(root, overrides=ov)
        except AnalysisError as e:
            return (r, s_, prop, 'exit2', 'loader: ' + str(e)[:120])
        known = report.load_known()
        run = analyse(prop, repo, 'quick')
        nv = [o for o in run.violations() if report.match_known(o, known) is None]
        if nv:
            return (r, s_, prop, 'detected', '%s-%s %s' % (nv[0].prop, nv[0].clause, nv[0].what[:100]))
        if run.errors:
            return (r, s_, prop, 'exit2', run.errors[0][:150])
        return (r, s_, prop, 'MISSED', '')
    except Exception:
        return (r, s_, prop, 'crash', traceback.format_exc()[-300:])


def compose(a, jobs, root, pref):
    tasks = []
    rids = sorted(d for d in os.listdir(os.path.join(HERE, 'refactored')) if os.path.exists(os.path.join(HERE, 'refactored', d, 'patch.diff')))
    if pref:
        rids = [i for i in rids if any(i.startswith(p) for p in pref)]
    sids = sorted(d for d in os.listdir(os.path.join(HERE, 'seeded')) if os.path.exists(os.path.join(HERE, 'seeded', d, 'patch.diff')))
    sfiles = dict((s_, _load('seeded', s_)[1]) for s_ in sids)
    smeta = dict((s_, json.load(open(os.path.join(HERE, 'seeded', s_, 'meta.json')))) for s_ in sids)
    for r in rids:
        rf = _load('refactored', r)[1]
        for s_ in sids:
            if not (sfiles[s_] & rf):
                continue
            m = smeta[s_]
            det = m.get('detection', {})
            prop = m.get('property') if det.get('own_property_fires', True) else (det.get('fired') or [m.get('property')])[0]
            tasks.append((r, s_, prop, root))
    with mp.get_context('fork').Pool(jobs) as pool:
        res = pool.map(pair, tasks, chunksize=4)
    stats = {}
    for r, s_, prop, st, why in res:
        stats[st] = stats.get(st, 0) + 1
        if st in ('MISSED', 'crash'):
            print('%-7s %-6s %-4s %-8s %s' % (r, s_, prop, st, why))
    e2 = {}
    for r, s_, prop, st, why in res:
        if st == 'exit2':
            e2.setdefault(r, []).append(s_)
    for r in sorted(e2):
        print('%-7s exit2 under %s' % (r, ' '.join(e2[r])))
    print('pairs: %s' % ', '.join('%s=%d' % kv for kv in sorted(stats.items())))
    return 1 if stats.get('MISSED') or stats.get('crash') else 0


def main():
    a = sys.argv[1:]
    if a and a[0] == 'compose':
        jobs = int(a[a.index('--jobs') + 1]) if '--jobs' in a else 14
        root = a[a.index('--repo') + 1] if '--repo' in a else '/repo'
        skipn = set()
        for fl in ('--jobs', '--repo'):
            if fl in a:
                skipn |= {a.index(fl), a.index(fl) + 1}
        return compose(a, jobs, root, [x for i, x in enumerate(a[1:], 1) if i not in skipn])
    if not a or a[0] not in ('refactored', 'seeded'):
        print(__doc__)
        return 2
    kind = a[0]
    jobs = int(a[a.index('--jobs') + 1]) if '--jobs' in a else 14
    root = a[a.index('--repo') + 1] if '--repo' in a else '/repo'
    skipn = set()
    for fl in ('--jobs', '--repo'):
        if fl in a:
            skipn |= {a.index(fl), a.index(fl) + 1}
    pref = [x for i, x in enumerate(a[1:], 1) if i not in skipn and x != '--record']
    ids = sorted(d for d in os.listdir(os.path.join(HERE, kind)) if os.path.exists(os.path.join(HERE, kind, d, 'patch.diff')))
    if pref:
        ids = [i for i in ids if any(i.startswith(p) for p in pref)]
    with mp.get_context('fork').Pool(jobs) as pool:
        res = pool.map(one, [(kind, i, root) for i in ids], chunksize=1)
    bad = 0
    if kind == 'refactored':
        n_sil = n_err = n_alarm = 0
        for ident, st, why, viol, errs in res:
            if st != 'ok' and st != 'err':
                print('%-7s %s %s' % (ident, st.upper(), why))
                bad += st == 'crash'
                continue
            if viol:
                n_alarm += 1
                bad += 1
                print('%-7s ALARM %s' % (ident, sorted(viol)))
                for p, w in sorted(viol.items()):
                    print('        %s' % w)
            elif errs:
                n_err += 1
                print('%-7s exit2 %s' % (ident, sorted(errs)))
                for p, w in sorted(errs.items()):
                    print('        %s %s' % (p, w))
            else:
                n_sil += 1
        print('refactored: %d patches, %d silent, %d exit 2, %d ALARM' % (len(res), n_sil, n_err, n_alarm))
    else:
        own = cross = e2 = miss = 0
        for ident, st, why, viol, errs in res:
            if st != 'ok' and st != 'err':
                print('%-7s %s %s' % (ident, st.upper(), why))
                bad += 1
                continue
            m = json.load(open(os.path.join(HERE, kind, ident, 'meta.json')))
            prop = m.get('property')
            if prop in viol:
                own += 1
                tag = 'own'
            elif viol:
                cross += 1
                tag = 'cross ' + ','.join(sorted(viol))
            elif errs:
                e2 += 1
                tag = 'exit2 ' + ','.join(sorted(errs))
            else:
                miss += 1
                bad += 1
                tag = 'MISSED'
            if tag != 'own':
                print('%-7s %s' % (ident, tag))
            if '--record' in a:
                # the detection record the thorough tier reads (which check is expected to report this change)
                import subprocess
                head = subprocess.run(['git', '-C', HERE, 'rev-parse', '--short', 'HEAD'], stdout=subprocess.PIPE).stdout.decode().strip()
                m['detection'] = {'own_property_fires': prop in viol, 'fired': sorted(viol), 'analysis_error': sorted(errs),
                                  'details': dict((p, [w]) for p, w in sorted(viol.items())), 'checked_at_commit': head,
                                  'ran': 'patch.diff applied in memory to /repo HEAD; all 20 analyses (tools/memcheck.py seeded --record)'}
                json.dump(m, open(os.path.join(HERE, kind, ident, 'meta.json'), 'w'), indent=1, sort_keys=True)
        print('seeded: %d changes, %d reported by their own check, %d by another check, %d exit 2, %d MISSED' % (len(res), own, cross, e2, miss))
    return 1 if bad else 0


if __name__ == '__main__':
    sys.exit(main())

#!/usr/bin/env python3
"""All committed external patches against all 20 checks, in memory (no worktrees): the fast form of
`tools/refactors.py check all` + `tools/seeded.py check all`.

  tools/memcheck.py refactored [--jobs N] [--repo DIR] [prefix ...]
        every refactored/<id>/patch.diff applied in memory to the tree, the package brought into canonical form ONCE and
        all 20 analyses run on it; prints every patch that is not silent (ALARM = a violation line, ERR = exit 2)
  tools/memcheck.py seeded [--jobs N] [--repo DIR] [prefix ...]
        the same for seeded/<id>/patch.diff; prints which checks report each change and compares with the
        detection recorded in its meta.json (own property / cross / exit 2)

Not a registered check; the registered thorough tier does the same per property (SELFTEST-PATCHES).
"""
import json
import multiprocessing as mp
import os
import re
import sys
import traceback

HERE = os.path.dirname(os.path.dirname(os.path.abspath(__file__)))
sys.path.insert(0, HERE)

ALL = ['C%02d' % i for i in range(1, 21)]


def one(args):
    kind, ident, root = args
    try:
        from sa.loader import Repo, AnalysisError
        from sa import report
        from sa.main import analyse
        from sa.selftest import _apply_unified
        ptxt = open(os.path.join(HERE, kind, ident, 'patch.diff'), 'rb').read().decode('utf-8', 'replace')
        paths = set(re.findall(r'(?m)^\+\+\+ b/(\S+)', ptxt))
        paths = set(p for p in paths if p.startswith('pexpect/') and p.endswith('.py'))
        if not paths:
            return (ident, 'skip', 'no package file', {}, {})
        srcs = {}
        for p_ in paths:
            fp = os.path.join(root, p_)
            if not os.path.exists(fp):
                return (ident, 'skip', 'file missing', {}, {})
            srcs[p_] = open(fp, 'rb').read().decode('utf-8')
        # (hunks for files outside the package -- tests, docs -- are ignored)
        blocks = re.split(r'(?m)^(?=diff --git )', ptxt)
        ptxt = ''.join(b for b in blocks if any(('+++ b/' + p_) in b for p_ in paths))
        new = _apply_unified(srcs, ptxt)
        if new is None:
            return (ident, 'skip', 'does not apply', {}, {})
        ov = {}
        for p_, txt in new.items():
            try:
                compile(txt, p_, 'exec')
            except SyntaxError:
                return (ident, 'skip', 'does not compile', {}, {})
            ov[os.path.basename(p_)[:-3]] = txt
        try:
            repo = Repo(root, overrides=ov)
        except AnalysisError as e:
            return (ident, 'err', 'loader: %s' % str(e)[:120], {}, dict((p, str(e)[:120]) for p in ALL))
        known = report.load_known()
        viol, errs = {}, {}
        for pid in ALL:
            run = analyse(pid, repo, 'quick')
            nv = [o for o in run.violations() if report.match_known(o, known) is None]
            if nv:
                viol[pid] = '%s-%s %s: %s' % (nv[0].prop, nv[0].clause, nv[0].unit, nv[0].what[:110])
            elif run.errors:
                errs[pid] = run.errors[0][:150]
        return (ident, 'ok', '', viol, errs)
    except Exception:
        return (ident, 'crash', traceback.format_exc()[-400:], {}, {})


def main():
    a = sys.argv[1:]
    if not a or a[0] not in ('refactored', 'seeded'):
        print(__doc__)
        return 2
    kind = a[0]
    jobs = int(a[a.index('--jobs') + 1]) if '--jobs' in a else 14
    root = a[a.index('--repo') + 1] if '--repo' in a else '/repo'
    skipn = set()
    for fl in ('--jobs', '--repo'):
        if fl in a:
            skipn |= {a.index(fl), a.index(fl) + 1}
    pref = [x for i, x in enumerate(a[1:], 1) if i not in skipn]
    ids = sorted(d for d in os.listdir(os.path.join(HERE, kind)) if os.path.exists(os.path.join(HERE, kind, d, 'patch.diff')))
    if pref:
        ids = [i for i in ids if any(i.startswith(p) for p in pref)]
    with mp.get_context('fork').Pool(jobs) as pool:
        res = pool.map(one, [(kind, i, root) for i in ids], chunksize=1)
    bad = 0
    if kind == 'refactored':
        n_sil = n_err = n_alarm = 0
        for ident, st, why, viol, errs in res:
            if st != 'ok' and st != 'err':
                print('%-7s %s %s' % (ident, st.upper(), why))
                bad += st == 'crash'
                continue
            if viol:
                n_alarm += 1
                bad += 1
                print('%-7s ALARM %s' % (ident, sorted(viol)))
                for p, w in sorted(viol.items()):
                    print('        %s' % w)
            elif errs:
                n_err += 1
                print('%-7s exit2 %s' % (ident, sorted(errs)))
                for p, w in sorted(errs.items()):
                    print('        %s %s' % (p, w))
            else:
                n_sil += 1
        print('refactored: %d patches, %d silent, %d exit 2, %d ALARM' % (len(res), n_sil, n_err, n_alarm))
    else:
        own = cross = e2 = miss = 0
        for ident, st, why, viol, errs in res:
            if st != 'ok' and st != 'err':
                print('%-7s %s %s' % (ident, st.upper(), why))
                bad += 1
                continue
            m = json.load(open(os.path.join(HERE, kind, ident, 'meta.json')))
            prop = m.get('property')
            if prop in viol:
                own += 1
                tag = 'own'
            elif viol:
                cross += 1
                tag = 'cross ' + ','.join(sorted(viol))
            elif errs:
                e2 += 1
                tag = 'exit2 ' + ','.join(sorted(errs))
            else:
                miss += 1
                bad += 1
                tag = 'MISSED'
            if tag != 'own':
                print('%-7s %s' % (ident, tag))
        print('seeded: %d changes, %d reported by their own check, %d by another check, %d exit 2, %d MISSED' % (len(res), own, cross, e2, miss))
    return 1 if bad else 0


if __name__ == '__main__':
    sys.exit(main())

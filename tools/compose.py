#!/usr/bin/env python3
"""Seeded defects on top of behaviour-preserving refactorings: is a breaking change still reported when the code around it
has been restructured?

  tools/compose.py [--jobs N] [--only-silent]

For every pair (refactoring R, seeded change S) whose patches both apply (R first, then S, plain `git apply`), the check of
S's property is run on the combined tree.  Expected: exit 1 (VIOLATION).  Exit 2 means the refactoring made the rule lose
track of the code (honest, but a miss as far as detection goes); exit 0 is a miss.
Nothing is written to /repo; scratch worktrees under /tmp/seedrun.
"""
import json
import os
import sys
import multiprocessing as mp

sys.path.insert(0, os.path.dirname(os.path.abspath(__file__)))
from seeded import sh, scratch, drop, HERE      # noqa: E402

SEEDED = os.path.join(HERE, 'seeded')
REF = os.path.join(HERE, 'refactored')


def files_of(patch):
    out = set()
    for l in open(patch):
        if l.startswith('+++ b/'):
            out.add(l[6:].strip())
    return out


def one(args):
    r, s, prop = args
    d = scratch('x-%s-%s-%d' % (r, s, os.getpid()))
    try:
        rc, out = sh('git apply %s' % os.path.join(REF, r, 'patch.diff'), cwd=d)
        if rc:
            return (r, s, prop, 'skip', 'refactoring does not apply')
        rc, out = sh('git apply %s' % os.path.join(SEEDED, s, 'patch.diff'), cwd=d)
        if rc:
            return (r, s, prop, 'skip', 'seed does not apply on top')
        rc, out = sh(['/venv/bin/python', '-m', 'compileall', '-q', 'pexpect'], cwd=d)
        if rc:
            return (r, s, prop, 'skip', 'does not compile')
        rc, out = sh([os.path.join(HERE, 'check'), prop, '--repo', d, '--no-evidence'], timeout=600)
        first = ''
        lines = out.splitlines()
        for k, l in enumerate(lines):
            if l.startswith('VIOLATION') and k + 1 < len(lines):
                first = lines[k + 1].strip()[:160]
                break
            if l.startswith('ANALYSIS-ERROR'):
                first = first or l[:160]
        return (r, s, prop, {0: 'MISSED', 1: 'detected', 2: 'exit2'}.get(rc, 'rc%d' % rc), first)
    finally:
        drop(d)


def main():
    a = sys.argv[1:]
    jobs = int(a[a.index('--jobs') + 1]) if '--jobs' in a else 8
    tasks = []
    for r in sorted(os.listdir(REF)):
        rp = os.path.join(REF, r, 'patch.diff')
        if not os.path.exists(rp):
            continue
        rm = json.load(open(os.path.join(REF, r, 'meta.json')))
        if '--only-silent' in a and (rm.get('result', {}).get('alarms') or rm.get('result', {}).get('analysis_error')):
            continue
        rf = files_of(rp)
        for s in sorted(os.listdir(SEEDED)):
            sp = os.path.join(SEEDED, s, 'patch.diff')
            if not os.path.exists(sp):
                continue
            if not (files_of(sp) & rf):
                continue
            m = json.load(open(os.path.join(SEEDED, s, 'meta.json')))
            own = m.get('property')
            det = m.get('detection', {})
            prop = own if det.get('own_property_fires') else (det.get('fired') or [own])[0]
            tasks.append((r, s, prop))
    with mp.get_context('fork').Pool(jobs) as pool:
        res = pool.map(one, tasks, chunksize=1)
    stats = {}
    for r, s, prop, st, first in res:
        stats[st] = stats.get(st, 0) + 1
        if st in ('MISSED', 'exit2') or st.startswith('rc'):
            print('%-7s %-6s %-4s %-8s %s' % (r, s, prop, st, first))
    print('pairs: %s' % ', '.join('%s=%d' % kv for kv in sorted(stats.items())))
    json.dump(res, open('/tmp/fx/compose.json', 'w'), indent=1)


if __name__ == '__main__':
    main()

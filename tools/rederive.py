#!/usr/bin/env python3
"""Every repaired defect must be reported again on the tree it was found in:
   tools/rederive.py <pinned-tree>   (a worktree of the original snapshot)
prints, per fixed record of known_findings.json, whether <property>-<clause> fires there."""
import json, os, sys
HERE = os.path.dirname(os.path.dirname(os.path.abspath(__file__)))
sys.path.insert(0, HERE)
from sa.loader import Repo
from sa.main import analyse
root = sys.argv[1]
repo = Repo(root)
k = json.load(open(os.path.join(HERE, 'known_findings.json')))
runs = {}
bad = 0
for e in k['findings']:
    if not e['status'].startswith('fixed'):
        continue
    p = e['property']
    if p not in runs:
        runs[p] = analyse(p, repo, 'quick')
    hit = [o for o in runs[p].violations() if o.clause == e['clause']]
    print('%-4s %s-%s %-9s %s' % (e['id'], p, e['clause'], 'REPORTED' if hit else 'MISSED', (hit[0].what[:90] if hit else e['what_failed'][:90])))
    bad += not hit
sys.exit(1 if bad else 0)

#!/usr/bin/env python3
"""Print the canonical form (what the rules see) of a function:  tools/showcanon.py <module> <func> [--repo DIR]"""
import ast, os, sys
sys.path.insert(0, os.path.dirname(os.path.dirname(os.path.abspath(__file__))))
from sa.loader import Repo
a = sys.argv[1:]
root = a[a.index('--repo') + 1] if '--repo' in a else '/repo'
r = Repo(root)
print('canonicalisation hits:', getattr(r, 'canon_hits', None))
for n in ast.walk(r.modules[a[0]].tree):
    if isinstance(n, (ast.FunctionDef, ast.AsyncFunctionDef)) and n.name == a[1]:
        print(ast.unparse(n)); print()

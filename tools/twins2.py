#!/usr/bin/env python3
"""Site-wise behaviour-preserving rewrites of the whole package; every check must stay silent.

  tools/twins2.py <kind>|all [--bisect] [--props C01,C02] [--jobs N]

kinds
  swapif     if T: A else: B          ->  if not T: B else: A            (not-not collapsed)
  cmpflip    a OP b                   ->  b OP' a     (operands free of calls; == != < <= > >=)
  nestand    if a and b: X  (no else) ->  if a:\n if b: X
  dropelse   if T: ...return/raise  else: B   ->   if T: ...return/raise ; B
  addelse    if T: ...return/raise ; rest     ->   if T: ... else: rest     (last if of a block only)
  tempret    return <call/binop>      ->  _rv = <...>; return _rv
  augplain   x += <num>               ->  x = x + <num>   (Name targets, numeric constant)
  plainaug   x = x + e                ->  x += e          (Name targets; e a constant or a name)
  demorgan   not (a and b) -> not a or not b ;  a and b (in a test) -> not (not a or not b)
  swapassign two adjacent assignments with call-free right-hand sides that do not mention each other's targets are swapped
  alias      self.<attr>.<method>(...) as a statement  ->  _r = self.<attr>; _r.<method>(...)
  nop        a `pass` after every simple statement of a function body
  kwargs     positional arguments of calls to package methods with a unique signature -> keywords

With --bisect each site is applied alone for every property that fired on the whole-package variant,
so that the fragile rule and the construct it is fragile about are named.  Nothing is written to /repo.
"""
import ast, os, sys, copy, multiprocessing as mp
HERE = os.path.dirname(os.path.dirname(os.path.abspath(__file__)))
sys.path.insert(0, HERE)
from sa.loader import Repo, AnalysisError
from sa.main import analyse, ALL
from sa import report

KINDS = ['swapif', 'cmpflip', 'nestand', 'dropelse', 'addelse', 'tempret', 'augplain', 'plainaug', 'nop', 'kwargs', 'demorgan', 'swapassign', 'alias']
FLIP = {ast.Eq: ast.Eq, ast.NotEq: ast.NotEq, ast.Lt: ast.Gt, ast.Gt: ast.Lt, ast.LtE: ast.GtE, ast.GtE: ast.LtE}


def sources(root):
    out = {}
    pkg = os.path.join(root, 'pexpect')
    for fn in sorted(os.listdir(pkg)):
        if fn.endswith('.py'):
            out[fn[:-3]] = open(os.path.join(pkg, fn), encoding='utf-8').read()
    return out


def terminates(body):
    return bool(body) and isinstance(body[-1], (ast.Return, ast.Raise, ast.Continue, ast.Break))


def pure(e):
    return not any(isinstance(n, (ast.Call, ast.Await, ast.Yield, ast.YieldFrom, ast.NamedExpr)) for n in ast.walk(e))


def negate(t):
    if isinstance(t, ast.UnaryOp) and isinstance(t.op, ast.Not):
        return t.operand
    return ast.UnaryOp(op=ast.Not(), operand=t)


class Rewriter:
    """Walks statement lists; self.want(i) says whether site number i is rewritten."""

    def __init__(self, kind, want, sigs=None):
        self.kind, self.want, self.n, self.sigs = kind, want, 0, sigs or {}
        self.desc = {}

    def site(self, node, fn):
        i = self.n
        self.n += 1
        self.desc[i] = '%s:L%d' % (fn, getattr(node, 'lineno', 0))
        return self.want(i)

    def module(self, tree):
        for fn in ast.walk(tree):
            if isinstance(fn, (ast.FunctionDef, ast.AsyncFunctionDef)):
                fn.body = self.block(fn.body, fn.name, top=True)
        ast.fix_missing_locations(tree)
        return tree

    def block(self, body, fn, top=False):
        out = []
        k = self.kind
        i = 0
        while i < len(body):
            s = body[i]
            # recurse first
            for f in ('body', 'orelse', 'finalbody'):
                if hasattr(s, f) and isinstance(getattr(s, f), list) and not isinstance(s, (ast.FunctionDef, ast.AsyncFunctionDef, ast.ClassDef)):
                    setattr(s, f, self.block(getattr(s, f), fn))
            if isinstance(s, ast.Try):
                for h in s.handlers:
                    h.body = self.block(h.body, fn)
            if k == 'kwargs' or k == 'cmpflip':
                s = self.expr_rewrite(s, fn)
            if k == 'swapif' and isinstance(s, ast.If) and s.orelse and self.site(s, fn):
                s = ast.copy_location(ast.If(test=negate(s.test), body=s.orelse, orelse=s.body), s)
            elif k == 'nestand' and isinstance(s, ast.If) and not s.orelse and isinstance(s.test, ast.BoolOp) \
                    and isinstance(s.test.op, ast.And) and self.site(s, fn):
                first, rest = s.test.values[0], s.test.values[1:]
                inner_t = rest[0] if len(rest) == 1 else ast.BoolOp(op=ast.And(), values=rest)
                inner = ast.copy_location(ast.If(test=inner_t, body=s.body, orelse=[]), s)
                s = ast.copy_location(ast.If(test=first, body=[inner], orelse=[]), s)
            elif k == 'dropelse' and isinstance(s, ast.If) and s.orelse and terminates(s.body) and self.site(s, fn):
                tail = s.orelse
                s = ast.copy_location(ast.If(test=s.test, body=s.body, orelse=[]), s)
                out.append(s)
                out.extend(tail)
                i += 1
                continue
            elif k == 'addelse' and isinstance(s, ast.If) and not s.orelse and terminates(s.body) and i + 1 < len(body) \
                    and not any(isinstance(x, (ast.FunctionDef, ast.AsyncFunctionDef, ast.ClassDef)) for x in body[i + 1:]) and self.site(s, fn):
                rest = self.block(body[i + 1:], fn)
                s = ast.copy_location(ast.If(test=s.test, body=s.body, orelse=rest), s)
                out.append(s)
                return out
            elif k == 'tempret' and isinstance(s, ast.Return) and isinstance(s.value, (ast.Call, ast.BinOp, ast.Subscript)) and self.site(s, fn):
                a = ast.copy_location(ast.Assign(targets=[ast.Name(id='_rv', ctx=ast.Store())], value=s.value), s)
                out.append(a)
                s = ast.copy_location(ast.Return(value=ast.Name(id='_rv', ctx=ast.Load())), s)
            elif k == 'augplain' and isinstance(s, ast.AugAssign) and isinstance(s.target, ast.Name) and isinstance(s.op, (ast.Add, ast.Sub)) \
                    and isinstance(s.value, ast.Constant) and isinstance(s.value.value, (int, float)) and self.site(s, fn):
                s = ast.copy_location(ast.Assign(targets=[ast.Name(id=s.target.id, ctx=ast.Store())],
                                                 value=ast.BinOp(left=ast.Name(id=s.target.id, ctx=ast.Load()), op=s.op, right=s.value)), s)
            elif k == 'plainaug' and isinstance(s, ast.Assign) and len(s.targets) == 1 and isinstance(s.targets[0], ast.Name) \
                    and isinstance(s.value, ast.BinOp) and isinstance(s.value.op, (ast.Add, ast.Sub)) and isinstance(s.value.left, ast.Name) \
                    and s.value.left.id == s.targets[0].id and isinstance(s.value.right, (ast.Constant, ast.Name)) and self.site(s, fn):
                s = ast.copy_location(ast.AugAssign(target=ast.Name(id=s.targets[0].id, ctx=ast.Store()), op=s.value.op, value=s.value.right), s)
            elif k == 'demorgan' and isinstance(s, (ast.If, ast.While)) and self.site(s, fn):
                s.test = demorgan(s.test)
            elif k == 'alias' and isinstance(s, (ast.Expr, ast.Assign)) and isinstance(s.value, ast.Call) and isinstance(s.value.func, ast.Attribute) \
                    and isinstance(s.value.func.value, ast.Attribute) and isinstance(s.value.func.value.value, ast.Name) and s.value.func.value.value.id == 'self' \
                    and self.site(s, fn):
                rn = '_r%d' % self.n
                out.append(ast.copy_location(ast.Assign(targets=[ast.Name(id=rn, ctx=ast.Store())], value=s.value.func.value), s))
                s.value.func.value = ast.Name(id=rn, ctx=ast.Load())
            elif k == 'swapassign' and isinstance(s, ast.Assign) and out and isinstance(out[-1], ast.Assign) and swappable(out[-1], s) \
                    and id(out[-1]) not in self.__dict__.setdefault('swapped', set()) and self.site(s, fn):
                prev = out.pop()
                self.swapped.add(id(prev))
                self.swapped.add(id(s))
                out.append(s)
                s = prev
            out.append(s)
            if k == 'nop' and isinstance(s, (ast.Assign, ast.AugAssign, ast.Expr)) and not (isinstance(s, ast.Expr) and isinstance(s.value, ast.Constant)) \
                    and self.site(s, fn):
                out.append(ast.copy_location(ast.Pass(), s))
            i += 1
        return out

    def expr_rewrite(self, stmt, fn):
        me = self

        class T(ast.NodeTransformer):
            def visit_FunctionDef(self, n):
                return n
            visit_AsyncFunctionDef = visit_ClassDef = visit_Lambda = visit_FunctionDef

            def visit_If(self, n):       # nested blocks were handled by block(); only the header here
                n.test = self.visit(n.test)
                return n

            def visit_While(self, n):
                n.test = self.visit(n.test)
                return n

            def visit_For(self, n):
                n.iter = self.visit(n.iter)
                return n
            visit_AsyncFor = visit_For

            def visit_With(self, n):
                for it in n.items:
                    it.context_expr = self.visit(it.context_expr)
                return n
            visit_AsyncWith = visit_With

            def visit_Try(self, n):
                return n

            def visit_Compare(self, n):
                self.generic_visit(n)
                if me.kind == 'cmpflip' and len(n.ops) == 1 and type(n.ops[0]) in FLIP and pure(n.left) and pure(n.comparators[0]) and me.site(n, fn):
                    return ast.copy_location(ast.Compare(left=n.comparators[0], ops=[FLIP[type(n.ops[0])]()], comparators=[n.left]), n)
                return n

            def visit_Call(self, n):
                self.generic_visit(n)
                if me.kind != 'kwargs' or not n.args or any(isinstance(a, ast.Starred) for a in n.args):
                    return n
                if isinstance(n.func, ast.Attribute):
                    # receivers that are package objects (a same-named method of a foreign object must not be touched)
                    rtxt = ast.unparse(n.func.value)
                    if not (rtxt in ('self', 'spawn', 'expecter', 'child', 'self.spawn', 'self.child', 'self.expecter', 'screen', 'self.searcher', 'searcher')
                            or rtxt.startswith('super(')):
                        return n
                    name = n.func.attr
                elif isinstance(n.func, ast.Name):
                    name = n.func.id
                else:
                    return n
                sig = me.sigs.get(name)
                if not sig or len(n.args) > len(sig) or any(k.arg in sig[:len(n.args)] for k in n.keywords if k.arg):
                    return n
                if not me.site(n, fn):
                    return n
                kws = [ast.keyword(arg=sig[j], value=a) for j, a in enumerate(n.args)]
                return ast.copy_location(ast.Call(func=n.func, args=[], keywords=kws + n.keywords), n)
        return T().visit(stmt)


def demorgan(t):
    if isinstance(t, ast.UnaryOp) and isinstance(t.op, ast.Not) and isinstance(t.operand, ast.BoolOp):
        b = t.operand
        return ast.copy_location(ast.BoolOp(op=ast.Or() if isinstance(b.op, ast.And) else ast.And(), values=[negate(v) for v in b.values]), t)
    if isinstance(t, ast.BoolOp):
        inner = ast.BoolOp(op=ast.Or() if isinstance(t.op, ast.And) else ast.And(), values=[negate(v) for v in t.values])
        return ast.copy_location(ast.UnaryOp(op=ast.Not(), operand=inner), t)
    return t


def swappable(a, b):
    def names(e, ctx):
        return set(ast.unparse(n) for n in ast.walk(e) if isinstance(n, (ast.Name, ast.Attribute)) and isinstance(n.ctx, ctx))
    for x in (a, b):
        if not pure(x.value) or any(isinstance(t, (ast.Subscript, ast.Tuple, ast.List, ast.Starred)) for t in x.targets):
            return False
        if any(isinstance(n, ast.Subscript) for n in ast.walk(x.value)):
            return False
    ta, tb = set(ast.unparse(t) for t in a.targets), set(ast.unparse(t) for t in b.targets)
    ra, rb = names(a.value, ast.Load), names(b.value, ast.Load)
    # no target of one is read (or is a prefix of something read) by the other, and the targets differ
    def touches(ts, rs):
        return any(r == t or r.startswith(t + '.') or t.startswith(r + '.') for t in ts for r in rs)
    return not (ta & tb) and not touches(ta, rb) and not touches(tb, ra) and not touches(ta, tb)


def signatures(src):
    """method / function name -> parameter names (without self) when every definition in the package agrees"""
    seen = {}
    for m, s in src.items():
        for f in ast.parse(s).body:
            if isinstance(f, (ast.FunctionDef, ast.AsyncFunctionDef)):
                if f.args.vararg or f.args.posonlyargs:
                    seen.setdefault(f.name, set()).add(None)
                else:
                    seen.setdefault(f.name, set()).add(tuple(a.arg for a in f.args.args))
        for c in ast.walk(ast.parse(s)):
            if isinstance(c, ast.ClassDef):
                for f in c.body:
                    if isinstance(f, (ast.FunctionDef, ast.AsyncFunctionDef)):
                        if f.args.vararg or f.args.posonlyargs:
                            seen.setdefault(f.name, set()).add(None)
                            continue
                        static = any(ast.unparse(d) == 'staticmethod' for d in f.decorator_list)
                        ps = tuple(a.arg for a in f.args.args[0 if static else 1:])
                        seen.setdefault(f.name, set()).add(ps)
    return dict((k, list(v)[0]) for k, v in seen.items() if len(v) == 1 and None not in v and not k.startswith('__'))


def build(kind, src, want_for=None, sigs=None):
    """want_for: None = every site of every module, or (module, index) = that single site"""
    ov = {}
    nsites = {}
    desc = {}
    for m, s in src.items():
        if want_for is not None and want_for[0] != m:
            continue
        t = ast.parse(s)
        rw = Rewriter(kind, (lambda i: True) if want_for is None else (lambda i, w=want_for[1]: i == w), sigs)
        t = rw.module(t)
        nsites[m] = rw.n
        desc[m] = rw.desc
        x = ast.unparse(t) + '\n'
        compile(x, m, 'exec')
        ov[m] = x
    return ov, nsites, desc


def evaluate(ov, props, root='/repo'):
    repo = Repo(root, overrides=ov)
    known = report.load_known()
    res = {}
    for pid in props:
        try:
            r = analyse(pid, repo, 'quick')
            new = [o for o in r.violations() if report.match_known(o, known) is None]
            if new:
                res[pid] = 'FALSE-ALARM %s-%s %s: %s' % (new[0].prop, new[0].clause, new[0].unit, new[0].what[:100])
            elif r.errors:
                res[pid] = 'ANALYSIS-ERROR %s' % r.errors[0][:140]
        except AnalysisError as e:
            res[pid] = 'ANALYSIS-ERROR %s' % str(e)[:140]
        except Exception as e:
            res[pid] = 'CRASH %r' % e
    return res


def _one(a):
    kind, m, i, props, sigs = a
    src = sources('/repo')
    try:
        ov, ns, desc = build(kind, src, (m, i), sigs)
    except Exception as e:
        return (m, i, '?', {'*': 'BUILD %r' % e})
    return (m, i, desc[m].get(i, '?'), evaluate(ov, props))


def main():
    a = sys.argv[1:]
    kinds = KINDS if a[0] == 'all' else a[0].split(',')
    props = a[a.index('--props') + 1].split(',') if '--props' in a else ALL
    jobs = int(a[a.index('--jobs') + 1]) if '--jobs' in a else 16
    src = sources('/repo')
    sigs = signatures(src)
    bad = 0
    for kind in kinds:
        ov, nsites, desc = build(kind, src, None, sigs)
        res = evaluate(ov, props)
        tot = sum(nsites.values())
        print('%-9s sites=%d  %s' % (kind, tot, 'silent on all %d properties' % len(props) if not res else ''))
        for pid, msg in sorted(res.items()):
            bad += 1
            print('   %s %s' % (pid, msg))
        if res and '--bisect' in a:
            tasks = [(kind, m, i, sorted(res), sigs) for m, n in nsites.items() for i in range(n)]
            with mp.get_context('fork').Pool(jobs) as pool:
                for m, i, d, r in pool.imap_unordered(_one, tasks, chunksize=2):
                    for pid, msg in sorted(r.items()):
                        print('      site %s#%d %s: %s %s' % (m, i, d, pid, msg))
    return 1 if bad else 0


if __name__ == '__main__':
    sys.exit(main())

#!/usr/bin/env python3
"""Sensitivity survey: generic single-site AST mutations of every function of a module,
each run (in memory) against the checks of the properties anchored in that module.

  tools/survey.py <module> [--func NAME] [--jobs N] [--json out.json]

Survivors are NOT all weaknesses (many mutants are equivalent or touch behaviour no property
is about); the list is a work queue for triage.  Nothing is written to /repo.
"""
import ast, json, os, sys, copy, multiprocessing as mp
HERE = os.path.dirname(os.path.dirname(os.path.abspath(__file__)))
sys.path.insert(0, HERE)

CMP = {ast.Lt: ast.LtE, ast.LtE: ast.Lt, ast.Gt: ast.GtE, ast.GtE: ast.Gt, ast.Eq: ast.NotEq, ast.NotEq: ast.Eq,
       ast.Is: ast.IsNot, ast.IsNot: ast.Is, ast.In: ast.NotIn, ast.NotIn: ast.In}


def props_for(module):
    out = []
    for l in open(os.path.join(HERE, 'properties.jsonl')):
        p = json.loads(l)
        if any(f.endswith('/%s.py' % module) for f in p['anchors']['files']):
            out.append(p['id'])
    return out


def sites(tree, only_func=None):
    """yield (description, mutate(tree_copy) -> None) for every mutation site"""
    out = []
    idx = {}
    for fn in ast.walk(tree):
        if not isinstance(fn, (ast.FunctionDef, ast.AsyncFunctionDef)):
            continue
        if only_func and fn.name != only_func:
            continue
        for n in ast.walk(fn):
            key = (type(n).__name__, getattr(n, 'lineno', 0), getattr(n, 'col_offset', 0))
            if isinstance(n, ast.Compare):
                for i, op in enumerate(n.ops):
                    if type(op) in CMP:
                        out.append(('%s:L%d cmp %s->%s' % (fn.name, n.lineno, type(op).__name__, CMP[type(op)].__name__), ('cmp', key, i)))
            elif isinstance(n, ast.BinOp) and isinstance(n.op, (ast.Add, ast.Sub)) and not isinstance(n.left, ast.Constant):
                out.append(('%s:L%d arith %s' % (fn.name, n.lineno, type(n.op).__name__), ('arith', key)))
            elif isinstance(n, ast.BoolOp):
                out.append(('%s:L%d boolop %s' % (fn.name, n.lineno, type(n.op).__name__), ('boolop', key)))
            elif isinstance(n, ast.Constant) and isinstance(n.value, int) and not isinstance(n.value, bool) and abs(n.value) <= 10:
                out.append(('%s:L%d const %d+1' % (fn.name, n.lineno, n.value), ('const', key, 1)))
                out.append(('%s:L%d const %d-1' % (fn.name, n.lineno, n.value), ('const', key, -1)))
            elif isinstance(n, ast.Constant) and isinstance(n.value, bool):
                out.append(('%s:L%d bool flip' % (fn.name, n.lineno), ('boolflip', key)))
            elif isinstance(n, ast.UnaryOp) and isinstance(n.op, ast.Not):
                out.append(('%s:L%d drop not' % (fn.name, n.lineno), ('dropnot', key)))
            elif isinstance(n, (ast.Expr, ast.Assign, ast.AugAssign)) and not (isinstance(n, ast.Expr) and isinstance(n.value, ast.Constant)):
                out.append(('%s:L%d delete %s' % (fn.name, n.lineno, ast.unparse(n)[:50]), ('delete', key)))
            elif isinstance(n, ast.Return) and n.value is not None:
                pass
            elif isinstance(n, (ast.Break, ast.Continue)):
                out.append(('%s:L%d %s->pass' % (fn.name, n.lineno, type(n).__name__), ('delete', key)))
    return out


def apply(src, spec):
    tree = ast.parse(src)
    kind, key = spec[0], spec[1]
    done = [False]

    class T(ast.NodeTransformer):
        def generic_visit(self, n):
            n = super().generic_visit(n)
            k = (type(n).__name__, getattr(n, 'lineno', 0), getattr(n, 'col_offset', 0))
            if k != key or done[0]:
                return n
            if kind == 'cmp':
                n.ops[spec[2]] = CMP[type(n.ops[spec[2]])]()
            elif kind == 'arith':
                n.op = ast.Sub() if isinstance(n.op, ast.Add) else ast.Add()
            elif kind == 'boolop':
                n.op = ast.Or() if isinstance(n.op, ast.And) else ast.And()
            elif kind == 'const':
                n.value = n.value + spec[2]
            elif kind == 'boolflip':
                n.value = not n.value
            elif kind == 'dropnot':
                done[0] = True
                return n.operand
            elif kind == 'delete':
                done[0] = True
                return ast.copy_location(ast.Pass(), n)
            done[0] = True
            return n
    tree = T().visit(tree)
    ast.fix_missing_locations(tree)
    if not done[0]:
        return None
    return ast.unparse(tree) + '\n'


def work(args):
    module, desc, spec, props, base = args
    from sa.loader import Repo, AnalysisError
    from sa.main import analyse
    from sa import report
    try:
        msrc = apply(base, spec)
        if msrc is None:
            return (desc, 'skip', '')
        compile(msrc, module, 'exec')
    except Exception as e:
        return (desc, 'skip', str(e)[:60])
    try:
        repo = Repo('/repo', overrides={module: msrc})
    except Exception as e:
        return (desc, 'skip', str(e)[:60])
    known = report.load_known()
    killed = []
    errs = []
    for pid in props:
        try:
            r = analyse(pid, repo, 'quick')
            new = [o for o in r.violations() if report.match_known(o, known) is None]
            if new:
                killed.append('%s-%s' % (pid, new[0].clause))
            elif r.errors:
                errs.append(pid)
        except AnalysisError as e:
            errs.append(pid)
        except Exception as e:
            errs.append(pid + '!')
    if killed:
        return (desc, 'killed', ','.join(killed))
    if errs:
        return (desc, 'error', ','.join(errs))
    return (desc, 'SURVIVED', '')


def main():
    a = sys.argv[1:]
    module = a[0]
    func = a[a.index('--func') + 1] if '--func' in a else None
    jobs = int(a[a.index('--jobs') + 1]) if '--jobs' in a else 16
    props = props_for(module)
    if '--props' in a:
        props = a[a.index('--props') + 1].split(',')
    path = '/repo/pexpect/%s.py' % module
    # baseline = the unparsed module so that line numbers of sites and of the mutant agree
    base = ast.unparse(ast.parse(open(path).read())) + '\n'
    tree = ast.parse(base)
    ss = sites(tree, func)
    tasks = [(module, d, s, props, base) for d, s in ss]
    with mp.get_context('fork').Pool(jobs) as pool:
        res = pool.map(work, tasks, chunksize=4)
    k = sum(1 for r in res if r[1] == 'killed')
    e = sum(1 for r in res if r[1] == 'error')
    sv = [r for r in res if r[1] == 'SURVIVED']
    print('module %s props %s: %d mutants, %d killed, %d analysis-error, %d survived, %d skipped'
          % (module, props, len(res), k, e, len(sv), sum(1 for r in res if r[1] == 'skip')))
    for r in res:
        if r[1] in ('SURVIVED', 'error'):
            print('  %-9s %s %s' % (r[1], r[0], r[2]))
    if '--json' in a:
        json.dump(res, open(a[a.index('--json') + 1], 'w'), indent=1)


if __name__ == '__main__':
    main()

#!/usr/bin/env python3
"""Whole-package behaviour-preserving variants: every check must stay silent on them.

  format   every module re-emitted by ast.unparse (layout, comments, parentheses, quotes change)
  rename   every non-parameter local that is not captured by a closure renamed to <name>_r
  all      both

Variants are built in memory (Repo overrides); nothing is written to /repo.
"""
import ast, os, sys, json
HERE = os.path.dirname(os.path.dirname(os.path.abspath(__file__)))
sys.path.insert(0, HERE)
from sa.loader import Repo, AnalysisError
from sa.main import analyse, ALL
from sa import report


def sources(root):
    out = {}
    pkg = os.path.join(root, 'pexpect')
    for fn in sorted(os.listdir(pkg)):
        if fn.endswith('.py'):
            out[fn[:-3]] = open(os.path.join(pkg, fn), encoding='utf-8').read()
    return out


def fmt(src):
    return ast.unparse(ast.parse(src)) + '\n'


class Renamer(ast.NodeTransformer):
    def __init__(self):
        self.stack = []

    def visit_FunctionDef(self, node):
        params = set(a.arg for a in node.args.posonlyargs + node.args.args + node.args.kwonlyargs)
        if node.args.vararg:
            params.add(node.args.vararg.arg)
        if node.args.kwarg:
            params.add(node.args.kwarg.arg)
        assigned = set()
        nested_names = set()
        declared = set()
        for n in ast.walk(node):
            if isinstance(n, (ast.FunctionDef, ast.AsyncFunctionDef, ast.Lambda, ast.ClassDef)) and n is not node:
                for m in ast.walk(n):
                    if isinstance(m, ast.Name):
                        nested_names.add(m.id)
                if hasattr(n, 'name'):
                    nested_names.add(n.name)
            if isinstance(n, (ast.Global, ast.Nonlocal)):
                declared.update(n.names)
            if isinstance(n, (ast.ListComp, ast.SetComp, ast.DictComp, ast.GeneratorExp)):
                for m in ast.walk(n):
                    if isinstance(m, ast.Name):
                        nested_names.add(m.id)
        uses_locals = any(isinstance(n, ast.Call) and isinstance(n.func, ast.Name) and n.func.id in ('locals', 'vars') for n in ast.walk(node))
        for n in ast.walk(node):
            if isinstance(n, ast.Name) and isinstance(n.ctx, ast.Store):
                assigned.add(n.id)
            elif isinstance(n, ast.ExceptHandler) and n.name:
                nested_names.add(n.name)
        ren = set() if uses_locals else (assigned - params - nested_names - declared)
        self.stack.append(ren)
        node.body = [self.visit(s) for s in node.body]
        self.stack.pop()
        return node

    visit_AsyncFunctionDef = visit_FunctionDef

    def visit_Name(self, node):
        if self.stack and node.id in self.stack[-1]:
            node.id = node.id + '_r'
        return node


def rename(src):
    t = ast.parse(src)
    t = Renamer().visit(t)
    ast.fix_missing_locations(t)
    return ast.unparse(t) + '\n'


def run(kind, root='/repo'):
    src = sources(root)
    ov = {}
    for m, s in src.items():
        x = s
        if kind in ('rename', 'all'):
            x = rename(x)
        if kind in ('format', 'all'):
            x = fmt(x)
        compile(x, m, 'exec')
        ov[m] = x
    repo = Repo(root, overrides=ov)
    known = report.load_known()
    bad = 0
    for pid in ALL:
        try:
            r = analyse(pid, repo, 'quick')
            new = [o for o in r.violations() if report.match_known(o, known) is None]
            if new:
                bad += 1
                print('%s %s FALSE-ALARM %s-%s %s: %s' % (kind, pid, new[0].prop, new[0].clause, new[0].unit, new[0].what[:110]))
                for o in new[1:4]:
                    print('      also %s-%s %s: %s' % (o.prop, o.clause, o.unit, o.what[:90]))
            elif r.errors:
                bad += 1
                print('%s %s ANALYSIS-ERROR %s' % (kind, pid, r.errors[0][:160]))
            else:
                print('%s %s silent' % (kind, pid))
        except AnalysisError as e:
            bad += 1
            print('%s %s ANALYSIS-ERROR %s' % (kind, pid, str(e)[:160]))
    return bad


if __name__ == '__main__':
    k = sys.argv[1] if len(sys.argv) > 1 else 'format'
    sys.exit(1 if run(k) else 0)

#!/usr/bin/env python3
"""Validate MANIFEST.json and evidence/*.json against the given schemas (run with python3-vt, which has jsonschema)."""
import json, glob, sys, os
import jsonschema
here = os.path.dirname(os.path.dirname(os.path.abspath(__file__)))
ms = json.load(open('/root/.vp/MANIFEST.schema.json'))
es = json.load(open('/root/.vp/EVIDENCE.schema.json'))
jsonschema.validate(json.load(open(os.path.join(here, 'MANIFEST.json'))), ms)
print('MANIFEST ok')
bad = 0
for p in sorted(glob.glob(os.path.join(here, 'evidence', '*.json'))):
    try:
        jsonschema.validate(json.load(open(p)), es)
        print('ok', os.path.basename(p))
    except Exception as e:
        bad += 1
        print('INVALID', p, str(e)[:300])
sys.exit(1 if bad else 0)
